#!/usr/bin/env python3
"""Regenerates /verif/MANIFEST.json from the table below (kept in one place so it stays valid)."""
import json, sys

props = [json.loads(l) for l in open('/verif/properties.jsonl')]

SEQ_NOTE = ("Trusted: TLC 1.8, the trace recorder in /verif/harness (it reports the results of the real calls), "
            "the property-level spec KlevAbs being a faithful reading of the property. Design-level runs are exhaustive only "
            "within the bounds of their cfg files; random drivers go beyond them without exhaustiveness.")
CODEC_NOTE = " Byte-level facts (parsing, re-encoding, index derivation) come from the independent reference codec /verif/harness/refcodec, which is trusted."

CLAIMED = {
 "C01": ("KlevSeg (seg_core_*.cfg) checked exhaustively by TLC: Flatten(disk) = live, structure invariants, cursor iteration. "
         "Binding: TLC-generated shortest histories (one per distinct model state) and seeded random histories are run on the real "
         "code; after every step the full cursor scan is recorded and TLC (TraceAbs) compares it with the abstract live sequence.",
         "TLA+ trace validation of full-scan observations + KlevSeg exhaustive", SEQ_NOTE),
 "C02": ("KlevSeg invariants NextOK / NextDerivable / NextMonotone; binding: every Publish result (returned offset, written-back offsets), "
         "NextOffset after every step and reopen, and the next offset re-derived from the projected newest segment file are judged by TLC.",
         "TLA+ trace validation of Publish/NextOffset + layout projection", SEQ_NOTE + CODEC_NOTE),
 "C03": ("KlevSeg: ConsumeOK for all offsets -5..MaxOff+2 x all maxCount in every reachable state, cursor iteration invariant. "
         "Binding: Consume sweeps (every offset in [-5,next+2] x maxCount {1,2,3,7,40}) after every step of generated and random histories, judged by TLC.",
         "TLA+ trace validation of Consume sweeps + KlevSeg exhaustive", SEQ_NOTE),
 "C04": ("KlevSeg: GetOK for all offsets in every reachable state. Binding: Get sweeps (all offsets in [0,next+2] plus both relative ones) "
         "next to Consume(off,1) after every step, judged by TLC against the same abstract state.",
         "TLA+ trace validation of Get sweeps + KlevSeg exhaustive", SEQ_NOTE),
 "C09": ("KlevSeg with a key index and colliding hashes: GetByKeyOK / ConsumeByKeyOK for every key, cursor offset and maxCount in every state. "
         "Binding: real FNV-1a-64 colliding byte strings, key sweeps (present, absent, colliding-with-present) after every step, judged by TLC.",
         "TLA+ trace validation of key lookups with real hash collisions + KlevSeg exhaustive", SEQ_NOTE),
 "C10": ("KlevSeg with a time index: GetByTimeOK for every query time in every state whose times never decrease (equal runs straddling segments). "
         "Binding: GetByTime/OffsetByTime at every microsecond around the published times after every step, judged by TLC.",
         "TLA+ trace validation of time lookups at 1us steps + KlevSeg exhaustive", SEQ_NOTE),
 "C12": ("KlevSeg: DeleteOK on every enabled Delete(S) for all S up to MaxSets in every state (all structural outcomes). "
         "Binding: every Delete/DeleteMulti result (set, content, size by source-file version, error) judged by TLC, followed by a full scan; a third of the DeleteMulti calls use a backoff that gives up at its k-th call; one history in a hundred has ~3000 messages in one segment and delete sets of more than a thousand offsets.",
         "TLA+ trace validation of Delete results + KlevSeg exhaustive", SEQ_NOTE + CODEC_NOTE),
}
CLAIMED.update(json.load(open('/verif/claimed_extra.json')) if __import__('os').path.exists('/verif/claimed_extra.json') else {})

checks = []
for p in props:
    if p['id'] not in CLAIMED:
        continue
    text, tech, note = CLAIMED[p['id']]
    checks.append({
        "property_id": p['id'],
        "quick_cmd": "./check %s quick" % p['id'],
        "thorough_cmd": "./check %s thorough" % p['id'],
        "evidence_file": "/verif/evidence/%s.json" % p['id'],
        "replay_cmd_template": "./check replay {path}",
        "engine": "tlc",
        "level_claimed": {"category": "model_checking", "text": text, "design_ref": "DESIGN.md section 5, " + p['id']},
        "level_note": note,
        "technique": tech})

hooks = json.load(open('/verif/hooks.json')) if __import__('os').path.exists('/verif/hooks.json') else {"source_commits": []}
m = {"version": 1,
     "setup_cmd": "cd /verif/spec && for f in *.tla; do tla-sany $f >/dev/null 2>&1 || { echo SANY failed on $f; exit 1; }; done; rm -rf states; cd /verif/harness && cp /repo/go.sum . && GOFLAGS=-mod=mod GOPROXY=off go vet ./refcodec >/dev/null",
     "hooks": {"guard": "verif", "enable": "go build -tags verif (./check builds the harness, and with it /repo, with -tags verif)",
               "baseline_off_cmd": "cd /repo && go test -vet=off -count=1 ./...",
               "source_commits": hooks["source_commits"], "add_only": True},
     "engines": [{"name": "tlc", "path": "/verif/spec + /verif/harness",
                  "serves_properties": sorted(CLAIMED),
                  "kind_free_text": "explicit TLA+ specifications checked by TLC (bounded exhaustive design-level runs) and bound to the Go code by trace validation: a Go harness replays TLC-generated and random histories on the real klevdb built from /repo with -tags verif, records ndjson traces, TLC judges every event against the property-level spec"}],
     "checks": checks,
     "notes": "See DESIGN.md. known_findings.json lists repaired (fix: commits) and open findings.",
     "not_applicable": [{"property_id": p['id'], "reason": "check not built yet (work in progress, see DESIGN.md section 5)"} for p in props if p['id'] not in CLAIMED]}
json.dump(m, open('/verif/MANIFEST.json', 'w'), indent=1)
print("claimed:", sorted(CLAIMED))
