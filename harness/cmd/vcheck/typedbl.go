package main

import (
	"context"

	"github.com/klev-dev/klevdb"
)

// C18 names ConsumeBlocking / ConsumeByKeyBlocking; the typed wrappers (typed_blocking.go, one of the property's
// anchor files) have the same two calls over TLog. blog is what the blocking scenarios need; typedBL runs them
// through OpenTBlocking with a codec that passes bytes through, so that the same observations apply.

type blog interface {
	Publish([]klevdb.Message) (int64, error)
	NextOffset() (int64, error)
	Consume(offset, maxCount int64) (int64, []klevdb.Message, error)
	ConsumeByKey(key []byte, offset, maxCount int64) (int64, []klevdb.Message, error)
	ConsumeBlocking(ctx context.Context, offset, maxCount int64) (int64, []klevdb.Message, error)
	ConsumeByKeyBlocking(ctx context.Context, key []byte, offset, maxCount int64) (int64, []klevdb.Message, error)
	Close() error
}

type bytesCodec struct{}

func (bytesCodec) Encode(t []byte, empty bool) ([]byte, error) {
	if empty {
		return nil, nil
	}
	return t, nil
}

func (bytesCodec) Decode(b []byte) ([]byte, bool, error) {
	if b == nil {
		return nil, true, nil
	}
	return b, false, nil
}

type typedBL struct {
	t klevdb.TBlockingLog[[]byte, []byte]
}

func openTypedBL(dir string, opts klevdb.Options) (blog, error) {
	t, err := klevdb.OpenTBlocking[[]byte, []byte](dir, opts, bytesCodec{}, bytesCodec{})
	if err != nil {
		return nil, err
	}
	return &typedBL{t}, nil
}

func (b *typedBL) raw(ts []klevdb.TMessage[[]byte, []byte]) []klevdb.Message {
	var out []klevdb.Message
	for _, t := range ts {
		m := klevdb.Message{Offset: t.Offset, Time: t.Time}
		if !t.KeyEmpty {
			m.Key = t.Key
		}
		if !t.ValueEmpty {
			m.Value = t.Value
		}
		out = append(out, m)
	}
	return out
}

func (b *typedBL) Publish(ms []klevdb.Message) (int64, error) {
	ts := make([]klevdb.TMessage[[]byte, []byte], len(ms))
	for i, m := range ms {
		ts[i] = klevdb.TMessage[[]byte, []byte]{Time: m.Time, Key: m.Key, KeyEmpty: m.Key == nil, Value: m.Value, ValueEmpty: m.Value == nil}
	}
	return b.t.Publish(ts)
}
func (b *typedBL) NextOffset() (int64, error) { return b.t.NextOffset() }
func (b *typedBL) Consume(off, max int64) (int64, []klevdb.Message, error) {
	n, ts, err := b.t.Consume(off, max)
	return n, b.raw(ts), err
}
func (b *typedBL) ConsumeByKey(key []byte, off, max int64) (int64, []klevdb.Message, error) {
	n, ts, err := b.t.ConsumeByKey(key, key == nil, off, max)
	return n, b.raw(ts), err
}
func (b *typedBL) ConsumeBlocking(ctx context.Context, off, max int64) (int64, []klevdb.Message, error) {
	n, ts, err := b.t.ConsumeBlocking(ctx, off, max)
	return n, b.raw(ts), err
}
func (b *typedBL) ConsumeByKeyBlocking(ctx context.Context, key []byte, off, max int64) (int64, []klevdb.Message, error) {
	n, ts, err := b.t.ConsumeByKeyBlocking(ctx, key, key == nil, off, max)
	return n, b.raw(ts), err
}
func (b *typedBL) Close() error { return b.t.Close() }
