package main

import (
	"bufio"
	"crypto/sha256"
	"encoding/json"
	"fmt"
	"math/rand"
	"os"
	"path/filepath"
	"sort"
	"strconv"
	"strings"
	"time"

	"github.com/klev-dev/klevdb"
)

// C19: several handles on one directory.

type hOp struct {
	Op     string `json:"op"`
	ID     int    `json:"id"`
	Mode   string `json:"mode"`
	Create bool   `json:"create"`
	Check  bool   `json:"check"`
	// Recover: Options.Recover. A read-write Open repairs the head segment, a read-only Open must only check it.
	Recover bool   `json:"recover"`
	Res     string `json:"res"`
}

type hHist struct {
	ID  int   `json:"id"`
	Ops []hOp `json:"ops"`
}

func classifyOpen(err error) string {
	if err == nil {
		return ""
	}
	s := err.Error()
	switch {
	case strings.Contains(s, "already"):
		return "Locked"
	case strings.Contains(s, "open check"), strings.Contains(s, "open recover"):
		return "Check"
	case strings.Contains(s, "no such file or directory"):
		return "NoDir"
	}
	return "Other"
}

func logFilesSha(dir string) string {
	es, _ := os.ReadDir(dir)
	h := sha256.New()
	var names []string
	for _, e := range es {
		if strings.HasSuffix(e.Name(), ".log") {
			names = append(names, e.Name())
		}
	}
	sort.Strings(names)
	for _, n := range names {
		b, _ := os.ReadFile(filepath.Join(dir, n))
		fmt.Fprintf(h, "%s:%d:", n, len(b))
		h.Write(b)
	}
	return fmt.Sprintf("%d files %x", len(names), h.Sum(nil)[:12])
}

func runHandleHist(hh *hHist, root string, tw *TraceWriter) {
	dir := filepath.Join(root, fmt.Sprintf("hd-%d", hh.ID), "log")
	defer os.RemoveAll(filepath.Dir(dir))
	os.MkdirAll(filepath.Dir(dir), 0o700)
	x := NewExec(&History{ID: hh.ID, Keys: true, Times: true, Mono: true}, dir, tw, Obs{KeyQ: []string{"n", "a", "g"}})
	x.emit("reset", map[string]any{})
	x.minT, x.maxT, x.anyT = 1000, 1045, true // fixed query range for every digest
	var hs [8]klevdb.Log
	var mode [8]string
	var roSha [8]string
	lastRW := ""
	lastRWSha := ""
	var savedIx []byte
	savedPath := ""
	vid := 0
	tm := int64(1000)
	// answers are only compared while the index files are intact (a damaged index is outside C19)
	dj := func(l klevdb.Log) string {
		if savedIx != nil {
			return ""
		}
		b, _ := json.Marshal(x.digest(l, x.obs.KeyQ))
		return string(b)
	}
	for i, op := range hh.Ops {
		x.opi = i
		switch op.Op {
		case "open":
			if hs[op.ID] != nil {
				continue
			}
			shaBefore := logFilesSha(dir)
			l, err := klevdb.Open(dir, klevdb.Options{Readonly: op.Mode == "ro", CreateDirs: op.Create, Check: op.Check, Recover: op.Recover,
				KeyIndex: true, TimeIndex: true, Rollover: 100})
			x.emit("hopen", map[string]any{"id": op.ID, "mode": op.Mode, "create": op.Create, "check": op.Check, "recover": op.Recover,
				"res": classifyOpen(err), "errs": errStr(err)})
			if op.Mode == "ro" { // whatever its options and its outcome, a read-only Open changes no log file
				x.emit("same", map[string]any{"a": shaBefore, "b": logFilesSha(dir), "what": "log files unchanged by a read-only Open (successful or failed)", "id": op.ID})
			}
			if err != nil {
				continue
			}
			if op.Mode == "rw" && op.Recover && savedIx != nil {
				savedIx = nil // repaired by Recover
			}
			hs[op.ID], mode[op.ID] = l, op.Mode
			if op.Mode == "ro" {
				roSha[op.ID] = logFilesSha(dir)
				if lastRW != "" && lastRWSha == roSha[op.ID] && savedIx == nil {
					d := dj(l)
					x.emit("same", map[string]any{"a": lastRW, "b": d, "what": "read-only handle answers like the read-write handle on the same files", "id": op.ID})
				}
				// a read-only handle rejects Publish and Delete
				_, perr := l.Publish([]klevdb.Message{{Key: []byte("k"), Value: []byte("v")}})
				x.emit("hpublish", map[string]any{"id": op.ID, "err": errClass(perr)})
				_, _, derr := l.Delete(map[int64]struct{}{0: {}})
				x.emit("hdelete", map[string]any{"id": op.ID, "err": errClass(derr)})
			} else {
				lastRW, lastRWSha = dj(l), logFilesSha(dir)
			}
		case "close":
			l := hs[op.ID]
			if l == nil {
				continue
			}
			if mode[op.ID] == "rw" {
				lastRW = dj(l)
			}
			err := l.Close()
			x.emit("hclose", map[string]any{"id": op.ID, "err": errClass(err), "errs": errStr(err)})
			hs[op.ID] = nil
			if mode[op.ID] == "rw" {
				lastRWSha = logFilesSha(dir)
			} else {
				x.emit("same", map[string]any{"a": roSha[op.ID], "b": logFilesSha(dir), "what": "log files unchanged by the read-only session", "id": op.ID})
			}
		case "publish":
			l := hs[op.ID]
			if l == nil || savedIx != nil {
				continue // not open, or the head index is damaged (outside C19)
			}
			var batch []klevdb.Message
			for k := 0; k < 1+(i+hh.ID)%3; k++ {
				vid++
				tm++
				v := valueBytes(vid, 20)
				x.vals[string(v)] = len(x.vals) + 1
				batch = append(batch, klevdb.Message{Key: keyBytes[[]string{"n", "a", "g"}[vid%3]], Value: v, Time: time.UnixMicro(x.t0 + tm).UTC()})
			}
			_, err := l.Publish(batch)
			x.emit("hpublish", map[string]any{"id": op.ID, "err": errClass(err)})
			if mode[op.ID] == "rw" && err == nil && (i+hh.ID)%4 == 3 {
				// the writer deletes the newest message: a hole at the end, an EMPTY head segment behind it (layouts in
				// which a read-only handle, which has no writer, has to answer like the read-write handle)
				if nx, nerr := l.NextOffset(); nerr == nil && nx > 0 {
					_, _, derr := l.Delete(map[int64]struct{}{nx - 1: {}})
					x.emit("hdelete", map[string]any{"id": op.ID, "err": errClass(derr)})
				}
			}
			if mode[op.ID] == "rw" {
				lastRW, lastRWSha = dj(l), "dirty"
			}
		case "damage":
			segs := projectDir(dir, true, true).Segs
			if len(segs) == 0 {
				continue
			}
			savedPath = filepath.Join(dir, fmt.Sprintf("%020d.index", segs[len(segs)-1].Base))
			if (i+hh.ID)%2 == 1 { // every other damage is a torn tail of the head LOG instead (half a record header)
				savedPath = filepath.Join(dir, fmt.Sprintf("%020d.log", segs[len(segs)-1].Base))
			}
			b, err := os.ReadFile(savedPath)
			if err != nil || len(b) < 20 {
				continue
			}
			savedIx = append([]byte(nil), b...)
			if strings.HasSuffix(savedPath, ".log") {
				b = append(b, b[8:8+17]...)
			} else {
				b[len(b)-20] ^= 0x40 // inside the last item: the position / timestamp field
			}
			os.WriteFile(savedPath, b, 0o600)
			x.emit("damage", map[string]any{"file": filepath.Base(savedPath)})
		case "repair":
			if savedIx == nil {
				continue
			}
			os.WriteFile(savedPath, savedIx, 0o600)
			savedIx = nil
			x.emit("repair", map[string]any{})
		}
	}
	for id := range hs {
		if hs[id] != nil {
			hs[id].Close()
		}
	}
}

func genHandleHist(id int, seed int64, n int) *hHist {
	rng := rand.New(rand.NewSource(seed*7919 + int64(id)))
	hh := &hHist{ID: id}
	open := map[int]string{}
	exists, corrupt, npub := false, false, 0
	for len(hh.Ops) < n {
		i := 1 + rng.Intn(3)
		switch r := rng.Intn(10); {
		case r < 4:
			if open[i] != "" {
				continue
			}
			op := hOp{Op: "open", ID: i, Mode: []string{"rw", "ro"}[rng.Intn(2)], Create: !exists && rng.Intn(3) > 0 || rng.Intn(4) == 0, Check: rng.Intn(2) == 0, Recover: rng.Intn(3) == 0}
			hh.Ops = append(hh.Ops, op)
			// shadow of the expected result, only to keep the generator's bookkeeping plausible
			ok := exists || op.Create
			for _, m := range open {
				if m == "rw" || op.Mode == "rw" {
					ok = false
				}
			}
			if corrupt && ((op.Mode == "ro" && (op.Check || op.Recover)) || (op.Mode == "rw" && op.Check && !op.Recover)) {
				ok = false
			}
			if ok && op.Mode == "rw" && op.Recover {
				corrupt = false
			}
			exists = exists || op.Create
			if ok {
				open[i] = op.Mode
			}
		case r < 6:
			if open[i] == "" {
				continue
			}
			hh.Ops = append(hh.Ops, hOp{Op: "close", ID: i})
			delete(open, i)
		case r < 8:
			if open[i] == "" {
				continue
			}
			hh.Ops = append(hh.Ops, hOp{Op: "publish", ID: i})
			if open[i] == "rw" {
				npub++
			}
		case r == 8:
			if len(open) > 0 || npub == 0 || corrupt {
				continue
			}
			hh.Ops = append(hh.Ops, hOp{Op: "damage"})
			corrupt = true
		default:
			if len(open) > 0 || !corrupt {
				continue
			}
			hh.Ops = append(hh.Ops, hOp{Op: "repair"})
			corrupt = false
		}
	}
	return hh
}

func handleHistsFromSpec(cfg string, scratch string, timeout time.Duration) ([]*hHist, int, error) {
	run := runTLC("HandlesGen.tla", cfg, 1, true, nil, nil, timeout, scratch)
	if run.Infra != nil {
		return nil, 0, run.Infra
	}
	var out []*hHist
	sc := bufio.NewScanner(strings.NewReader(run.Out))
	sc.Buffer(make([]byte, 1<<20), 1<<26)
	for sc.Scan() {
		line := sc.Text()
		if !strings.HasPrefix(line, `"CASE `) {
			continue
		}
		s, err := strconv.Unquote(line)
		if err != nil {
			return nil, 0, err
		}
		var c struct {
			Hist []hOp `json:"hist"`
		}
		if err := json.Unmarshal([]byte(strings.TrimPrefix(s, "CASE ")), &c); err != nil {
			return nil, 0, err
		}
		if len(c.Hist) == 0 {
			continue
		}
		out = append(out, &hHist{ID: len(out) + 1, Ops: c.Hist})
	}
	if len(out) == 0 {
		return nil, 0, fmt.Errorf("HandlesGen produced no cases: %s", tail(run.Out, 20))
	}
	return out, run.Distinct, nil
}
