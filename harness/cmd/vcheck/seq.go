package main

import (
	"bufio"
	"crypto/sha1"
	"encoding/json"
	"fmt"
	"os"
	"path/filepath"
	"sort"
	"strings"
	"sync"
	"time"
)

// SeqProfile describes one sequential check: how histories are generated, what is observed,
// which trace spec judges them.
type SeqProfile struct {
	Prop    string
	Gen     GenParams
	Obs     Obs
	NRandom int // random histories
	Module  string
	Cfg     string
	Design  []DesignRun                                               // design-level TLC runs (exhaustive, bounded)
	GenSpec *GenSpec                                                  // TLC-generated histories (spec -> code)
	Extra   func(*SeqRun)                                             // additional property-specific drivers writing into the same shards
	Rule    string                                                    // evidence: what is a case / what makes it non-trivial
	Assume  []string                                                  // evidence: assumptions
	KF      []string                                                  // known findings enabled for this check
	Hist    func(id int, seed int64) *History                         // custom history generator (overrides Gen)
	RunHist func(r *SeqRun, h *History, tw *TraceWriter, root string) // custom executor of one history (crash images ...)
}

type DesignRun struct {
	Module, Cfg string
	Workers     int
	Timeout     time.Duration
	Note        string
	// Expect: negative control. The configuration switches one repair / rule of the model off and MUST violate one
	// of the named invariants (comma separated); otherwise the model has lost the sensitivity the positive run relies on.
	Expect string
	// Apalache: if set, the run is `apalache-mc check <Apalache...> <Module>` instead of TLC (inductive invariants)
	Apalache []string
}

type GenSpec struct {
	Module, Cfg string
	Max         int // max histories replayed
	Timeout     time.Duration
	Keys, Times bool // index configuration of the model constants in Cfg
}

type Violation struct {
	Prop    string          `json:"property"`
	Replay  string          `json:"-"`
	Line    int             `json:"line"`
	Event   json.RawMessage `json:"event"`
	History *History        `json:"history"`
	HHist   json.RawMessage `json:"handle_history,omitempty"`
	FCase   *frameCaseJSON  `json:"frame_case,omitempty"`
	DCase   *dcaseRef       `json:"damage_case,omitempty"`
	NCase   *ncaseRef       `json:"notify_case,omitempty"`
	Profile string          `json:"profile"`
	Context []string        `json:"context"` // the trace lines of that history up to the rejected one
	Note    string          `json:"note"`
	hid     int
}

type ncaseRef struct {
	Kind  string  `json:"kind"` // schedule | free | blocking
	ID    int     `json:"id"`
	Seed  int64   `json:"seed"`
	Sched []nstep `json:"schedule,omitempty"`
}

type dcaseRef struct {
	ID   int    `json:"id"`
	Tier string `json:"tier"`
	Seed int64  `json:"seed"`
}

type SeqRun struct {
	P          *SeqProfile
	Tier       string
	Seed       int64
	Scratch    string
	mu         sync.Mutex
	hists      map[int]*History
	hhists     map[int][]byte
	fcases     map[int]frameCase
	dcases     map[int]bool
	stepShards []string
	shardSpec  map[string][2]string // per-shard trace spec (default: the profile's)
	chists     map[int]string
	ncases     map[int]*ncaseRef
	Notes      []string
	shards     []string
	Events     int
	Counts     map[string]int
	Sigs       map[string]struct{}
	Samples    []any
	Viol       []Violation
	KFHits     map[string]int
	Infra      []string
	States     int
	Trans      int
	DesignOK   bool
	Design     []map[string]any
	TraceSt    int
	NHist      int
	Exhaust    bool
	NGen       int
	GenStates  int
	Drift      int
}

func (r *SeqRun) infra(format string, a ...any) {
	r.mu.Lock()
	r.Infra = append(r.Infra, fmt.Sprintf(format, a...))
	r.mu.Unlock()
}

func dirSig(dir string) string {
	es, _ := os.ReadDir(dir)
	var sb strings.Builder
	for _, e := range es {
		if e.Name() == ".lock" {
			continue
		}
		if i, err := e.Info(); err == nil {
			fmt.Fprintf(&sb, "%s:%d;", e.Name(), i.Size())
		}
	}
	return sb.String()
}

// execHistories runs the histories on the real code, sharded over workers; each worker appends to its own trace file.
func (r *SeqRun) execHistories(hs []*History, tag string) {
	workers := 16
	if len(hs) < workers {
		workers = len(hs)
	}
	if workers == 0 {
		return
	}
	var wg sync.WaitGroup
	for w := 0; w < workers; w++ {
		wg.Add(1)
		go func(w int) {
			defer wg.Done()
			part := 0
			path := filepath.Join(r.Scratch, fmt.Sprintf("trace-%s-%02d-%03d.ndjson", tag, w, part))
			tw, err := NewTraceWriter(path, r.P.KF)
			if err != nil {
				r.infra("trace writer: %v", err)
				return
			}
			sigs := map[string]struct{}{}
			flush := func() {
				tw.Close()
				r.mu.Lock()
				r.shards = append(r.shards, path)
				r.Events += tw.n
				for k, v := range tw.counts {
					r.Counts[k] += v
				}
				r.mu.Unlock()
			}
			for i := w; i < len(hs); i += workers {
				if seqHangs.Load() >= 6 { // code that deadlocks: every hang is recorded and rejected; do not pay 120 s for each of thousands
					break
				}
				// bounded shards: TLC loads a whole trace file (its heap need is several times the file size; crash
				// images are kilobytes per event, and a dozen validations run side by side)
				if tw.n > 250000 || tw.bytes > 120<<20 {
					flush()
					part++
					path = filepath.Join(r.Scratch, fmt.Sprintf("trace-%s-%02d-%03d.ndjson", tag, w, part))
					if tw, err = NewTraceWriter(path, r.P.KF); err != nil {
						r.infra("trace writer: %v", err)
						return
					}
				}
				h := hs[i]
				dir := filepath.Join(r.Scratch, fmt.Sprintf("d-%s-%d", tag, h.ID))
				os.MkdirAll(dir, 0o700)
				if r.P.RunHist != nil {
					tw.Emit(map[string]any{"ev": "reset", "hid": h.ID})
					n0 := tw.n
					r.P.RunHist(r, h, tw, r.Scratch)
					for k := n0; k < tw.n; k++ {
						sigs[fmt.Sprintf("%d-%d", h.ID, k)] = struct{}{}
					}
					os.RemoveAll(dir)
					continue
				}
				x := NewExec(h, dir, tw, r.P.Obs)
				x.sigHook = func() { sigs[fmt.Sprintf("%v%v|%s", h.Keys, h.Times, dirSig(dir))] = struct{}{} }
				x.Run()
				if h.ExpBases != nil && !x.dead {
					// drift: does the real layout equal the one the implementation-shaped model predicts?
					var got []int64
					for _, sp := range projectDir(dir, h.Times, h.Keys).Segs {
						got = append(got, sp.Base)
					}
					if fmt.Sprint(got) != fmt.Sprint(h.ExpBases) {
						r.mu.Lock()
						r.Drift++
						if r.Drift <= 3 {
							fmt.Printf("MODEL-DRIFT history %d: segment bases %v, KlevSeg predicts %v\n", h.ID, got, h.ExpBases)
						}
						r.mu.Unlock()
					}
				}
				os.RemoveAll(dir)
			}
			flush()
			r.mu.Lock()
			for s := range sigs {
				h := sha1.Sum([]byte(s))
				r.Sigs[string(h[:8])] = struct{}{}
			}
			r.mu.Unlock()
		}(w)
	}
	wg.Wait()
	r.mu.Lock()
	for _, h := range hs {
		r.hists[h.ID] = h
	}
	r.NHist += len(hs)
	r.mu.Unlock()
}

func readLines(path string) ([]string, error) {
	f, err := os.Open(path)
	if err != nil {
		return nil, err
	}
	defer f.Close()
	sc := bufio.NewScanner(f)
	sc.Buffer(make([]byte, 1<<20), 1<<28)
	var lines []string
	for sc.Scan() {
		lines = append(lines, sc.Text())
	}
	return lines, sc.Err()
}

func writeLines(path string, lines []string) error {
	f, err := os.Create(path)
	if err != nil {
		return err
	}
	w := bufio.NewWriterSize(f, 1<<20)
	for _, l := range lines {
		w.WriteString(l)
		w.WriteByte('\n')
	}
	if err := w.Flush(); err != nil {
		return err
	}
	return f.Close()
}

type evHead struct {
	Ev  string `json:"ev"`
	Hid int    `json:"hid"`
	Opi int    `json:"opi"`
}

// validateShards runs the trace spec over every shard (in parallel), handles rejections.
func (r *SeqRun) validateShards() {
	sem := make(chan struct{}, 12)
	var wg sync.WaitGroup
	shards := append([]string(nil), r.shards...)
	sort.Strings(shards)
	for _, sh := range shards {
		wg.Add(1)
		go func(sh string) {
			defer wg.Done()
			sem <- struct{}{}
			defer func() { <-sem }()
			r.validateShard(sh)
		}(sh)
	}
	wg.Wait()
}

func (r *SeqRun) validateShard(path string) {
	for attempt := 0; attempt < 4; attempt++ {
		module, cfg := r.P.Module, r.P.Cfg
		if sp, ok := r.shardSpec[path]; ok {
			module, cfg = sp[0], sp[1]
		}
		run, bad := validateTrace(module, cfg, path, r.Scratch)
		if run.Infra != nil {
			r.infra("validate %s: %v", filepath.Base(path), run.Infra)
			return
		}
		r.mu.Lock()
		r.TraceSt += run.Distinct
		for k, v := range run.KF {
			r.KFHits[k] += v
		}
		r.mu.Unlock()
		if bad == 0 {
			if os.Getenv("VERIF_KEEP") == "" {
				os.Remove(path) // accepted: the trace is not needed any more (the scratch directory is RAM)
			}
			return
		}
		lines, err := readLines(path)
		if err != nil || bad > len(lines) {
			r.infra("rejected line %d not found in %s", bad, path)
			return
		}
		var eh evHead
		json.Unmarshal([]byte(lines[bad-1]), &eh)
		// context: lines of this history up to the rejected one
		start := bad - 1
		for start > 0 && !strings.Contains(lines[start], `"ev":"reset"`) {
			start--
		}
		end := bad
		for end < len(lines) && !strings.Contains(lines[end], `"ev":"reset"`) {
			end++
		}
		ctx := lines[start:bad]
		if len(ctx) > 40 {
			ctx = append([]string{ctx[0], "..."}, ctx[len(ctx)-38:]...)
		}
		if eh.Ev == "search" {
			r.searchViolation(lines[bad-1])
			rest := append(append([]string(nil), lines[:bad-1]...), lines[bad:]...)
			writeLines(path, rest)
			continue
		}
		v := Violation{Prop: r.P.Prop, Line: bad, Event: json.RawMessage(lines[bad-1]), History: r.hists[eh.Hid],
			HHist: r.hhists[eh.Hid], Profile: r.P.Prop, Context: ctx}
		v.hid = eh.Hid
		if nc, ok := r.ncases[eh.Hid]; ok && r.P.Prop == "C18" {
			v.NCase = nc
			v.History, v.HHist = nil, nil
		} else if r.dcases[eh.Hid] && r.P.Prop == "C14" {
			v.DCase = &dcaseRef{ID: eh.Hid, Tier: r.Tier, Seed: r.Seed}
			v.History, v.HHist = nil, nil
		} else if fc, ok := r.fcases[eh.Hid]; ok && r.P.Module == "TraceFrames.tla" {
			v.FCase = fc.toJSON()
			v.History, v.HHist = nil, nil
		}
		r.confirm(&v)
		// cut the rest of that history and check the remainder of the shard
		rest := append(append([]string(nil), lines[:bad-1]...), lines[end:]...)
		if err := writeLines(path, rest); err != nil {
			r.infra("rewrite shard: %v", err)
			return
		}
	}
}

// confirm re-executes the history alone; only a reproduced rejection is a violation.
func (r *SeqRun) confirm(v *Violation) {
	if v.History == nil && v.HHist == nil && v.FCase == nil && v.DCase == nil && v.NCase == nil {
		r.infra("rejected event without history: %s", truncate(string(v.Event), 500))
		return
	}
	ok, line, ev := r.replayAny(v)
	if ok {
		// the sequential replay does not reproduce: not a violation (exit 2)
		r.infra("UNREPRODUCED rejection in history %d at line %d: %s", v.hid, v.Line, truncate(string(v.Event), 500))
		return
	}
	v.Note = fmt.Sprintf("reproduced on re-execution (rejected at line %d: %s)", line, ev)
	os.MkdirAll("/verif/replays", 0o755)
	p := fmt.Sprintf("/verif/replays/%s-seed%d-h%d.json", r.P.Prop, r.Seed, v.hid)
	b, _ := json.MarshalIndent(v, "", " ")
	os.WriteFile(p, b, 0o644)
	v.Replay = p
	r.mu.Lock()
	r.Viol = append(r.Viol, *v)
	r.mu.Unlock()
	fmt.Printf("VIOLATION property=%s replay=%s\n", r.P.Prop, p)
	fmt.Printf("  rejected event: %s\n", truncate(string(v.Event), 600))
}

func truncate(s string, n int) string {
	if len(s) > n {
		return s[:n] + "..."
	}
	return s
}

func (r *SeqRun) replayAny(v *Violation) (bool, int, string) {
	if v.History != nil {
		return r.replayHistory(v.History)
	}
	if v.NCase != nil {
		dir, _ := os.MkdirTemp(r.Scratch, "replay")
		defer os.RemoveAll(dir)
		path := filepath.Join(dir, "trace.ndjson")
		tw, err := NewTraceWriter(path, r.P.KF)
		if err != nil {
			r.infra("replay: %v", err)
			return true, 0, ""
		}
		if v.NCase.Kind == "schedule" {
			// a gated schedule is deterministic: it must show again
			steps, _ := NewTraceWriter(filepath.Join(dir, "steps.ndjson"), nil)
			replaySchedule(v.NCase.ID, v.NCase.Sched, steps, tw)
			steps.Close()
			tw.Close()
			return r.judgeReplay(path)
		}
		// free-running goroutines cannot be forced into the same schedule: the recorded execution is real
		// behaviour of the real code, TLC re-judges the recorded events (DESIGN.md section 1)
		tw.Close()
		lines := []string{`{"ev":"config","kf":[]}`}
		for _, ln := range v.Context {
			if ln != "..." && !strings.Contains(ln, `"ev":"config"`) {
				lines = append(lines, ln)
			}
		}
		writeLines(path, lines)
		return r.judgeReplay(path)
	}
	if v.DCase != nil {
		dir, _ := os.MkdirTemp(r.Scratch, "replay")
		defer os.RemoveAll(dir)
		path, err := replayC14(r, v.DCase.ID, v.DCase.Tier, v.DCase.Seed, dir)
		if err != nil {
			r.infra("replay: %v", err)
			return true, 0, ""
		}
		return r.judgeReplay(path)
	}
	if v.FCase != nil {
		dir, _ := os.MkdirTemp(r.Scratch, "replay")
		defer os.RemoveAll(dir)
		path := filepath.Join(dir, "trace.ndjson")
		tw, err := NewTraceWriter(path, r.P.KF)
		if err != nil {
			r.infra("replay: %v", err)
			return true, 0, ""
		}
		tw.Emit(map[string]any{"ev": "reset", "hid": v.hid})
		runFrameCase(v.FCase.toCase(), filepath.Join(dir, "fc"), v.hid, tw)
		tw.Close()
		return r.judgeReplay(path)
	}
	var hh hHist
	if err := json.Unmarshal(v.HHist, &hh); err != nil {
		r.infra("replay: %v", err)
		return true, 0, ""
	}
	dir, _ := os.MkdirTemp(r.Scratch, "replay")
	defer os.RemoveAll(dir)
	path := filepath.Join(dir, "trace.ndjson")
	tw, err := NewTraceWriter(path, r.P.KF)
	if err != nil {
		r.infra("replay: %v", err)
		return true, 0, ""
	}
	runHandleHist(&hh, dir, tw)
	tw.Close()
	return r.judgeReplay(path)
}

func (r *SeqRun) judgeReplay(path string) (bool, int, string) {
	run, bad := validateTrace(r.P.Module, r.P.Cfg, path, r.Scratch)
	if run.Infra != nil {
		r.infra("replay validate: %v", run.Infra)
		return true, 0, ""
	}
	if bad == 0 {
		return true, 0, ""
	}
	lines, _ := readLines(path)
	ev := ""
	if bad <= len(lines) {
		ev = truncate(lines[bad-1], 400)
	}
	return false, bad, ev
}

// replayHistory executes one history in a fresh directory and validates its trace.
// It returns ok=true if the trace is accepted.
func (r *SeqRun) replayHistory(h *History) (bool, int, string) {
	dir, _ := os.MkdirTemp(r.Scratch, "replay")
	defer os.RemoveAll(dir)
	path := filepath.Join(dir, "trace.ndjson")
	tw, err := NewTraceWriter(path, r.P.KF)
	if err != nil {
		r.infra("replay: %v", err)
		return true, 0, ""
	}
	d := filepath.Join(dir, "log")
	os.MkdirAll(d, 0o700)
	if r.P.RunHist != nil {
		tw.Emit(map[string]any{"ev": "reset", "hid": h.ID})
		r.P.RunHist(r, h, tw, dir)
	} else {
		x := NewExec(h, d, tw, r.P.Obs)
		x.Run()
	}
	tw.Close()
	run, bad := validateTrace(r.P.Module, r.P.Cfg, path, r.Scratch)
	if run.Infra != nil {
		r.infra("replay validate: %v", run.Infra)
		return true, 0, ""
	}
	if bad == 0 {
		return true, 0, ""
	}
	lines, _ := readLines(path)
	ev := ""
	if bad <= len(lines) {
		ev = truncate(lines[bad-1], 400)
	}
	return false, bad, ev
}

// design runs the bounded exhaustive TLC configurations of the implementation-shaped specs.
func (r *SeqRun) design() {
	r.DesignOK = true
	for _, d := range r.P.Design {
		if r.Tier == "quick" && strings.Contains(d.Note, "thorough-only") {
			continue
		}
		if r.Tier == "thorough" && strings.Contains(d.Note, "quick-only") {
			continue
		}
		if d.Apalache != nil {
			ok, out, wall, ierr := runApalache(d.Module, d.Apalache, d.Timeout, r.Scratch)
			rec := map[string]any{"module": d.Module, "tool": "apalache-mc check " + strings.Join(d.Apalache, " "), "wall_s": wall, "note": d.Note, "outcome": map[bool]string{true: "NoError", false: "Error"}[ok]}
			if ierr != nil {
				r.infra("design %s (apalache): %v", d.Module, ierr)
				rec["error"] = ierr.Error()
				r.DesignOK = false
			} else if !ok {
				r.infra("design-level apalache run %s %v reported an error (model/spec problem, not a code verdict): %s", d.Module, d.Apalache, tail(out, 25))
				r.DesignOK = false
			}
			r.Design = append(r.Design, rec)
			continue
		}
		run := runTLC(d.Module, d.Cfg, d.Workers, d.Workers == 1, nil, nil, d.Timeout, r.Scratch)
		rec := map[string]any{"module": d.Module, "cfg": d.Cfg, "generated": run.Generated, "distinct": run.Distinct, "wall_s": run.Wall, "note": d.Note}
		if d.Expect != "" {
			rec["negative_control"], rec["expected_violation"], rec["violated"] = true, d.Expect, run.InvViol
			if run.Infra != nil || run.OK || run.InvViol == "" || !strings.Contains(","+d.Expect+",", ","+run.InvViol+",") {
				r.infra("negative control %s/%s: expected a violation of %s, got %q (infra=%v): the model lost its sensitivity", d.Module, d.Cfg, d.Expect, run.InvViol, run.Infra)
				r.DesignOK = false
			}
			r.Design = append(r.Design, rec)
			continue
		}
		if run.Infra != nil {
			r.infra("design %s/%s: %v", d.Module, d.Cfg, run.Infra)
			rec["error"] = run.Infra.Error()
			r.DesignOK = false
		} else if !run.OK {
			// a design-level counterexample is not a verdict about the code (DESIGN.md section 4): exit 2
			r.infra("design-level run %s/%s reported an error (model/spec problem, not a code verdict): %s", d.Module, d.Cfg, tail(run.Out, 25))
			r.DesignOK = false
		}
		r.States += run.Distinct
		r.Trans += run.Generated
		r.Design = append(r.Design, rec)
	}
}

func (r *SeqRun) sampleFromShards() {
	for _, sh := range r.shards {
		lines, err := readLines(sh)
		if err != nil {
			continue
		}
		n := 0
		for _, l := range lines {
			if strings.Contains(l, `"ev":"config"`) || strings.Contains(l, `"ev":"reset"`) {
				continue
			}
			var m any
			if json.Unmarshal([]byte(truncateJSON(l)), &m) == nil {
				r.Samples = append(r.Samples, m)
				n++
			}
			if n >= 2 || len(r.Samples) >= 6 {
				break
			}
		}
		if len(r.Samples) >= 6 {
			break
		}
	}
}

func truncateJSON(l string) string {
	if len(l) > 1500 {
		return `{"truncated":` + fmt.Sprintf("%q", l[:1500]) + `}`
	}
	return l
}

// execHandleHists runs C19 handle histories (their own executor) into shards.
func (r *SeqRun) execHandleHists(hs []*hHist) {
	workers := 8
	var wg sync.WaitGroup
	for w := 0; w < workers; w++ {
		wg.Add(1)
		go func(w int) {
			defer wg.Done()
			path := filepath.Join(r.Scratch, fmt.Sprintf("trace-hnd-%02d.ndjson", w))
			tw, err := NewTraceWriter(path, r.P.KF)
			if err != nil {
				r.infra("trace writer: %v", err)
				return
			}
			for i := w; i < len(hs); i += workers {
				runHandleHist(hs[i], r.Scratch, tw)
			}
			tw.Close()
			r.mu.Lock()
			r.shards = append(r.shards, path)
			r.Events += tw.n
			for k, v := range tw.counts {
				r.Counts[k] += v
			}
			r.mu.Unlock()
		}(w)
	}
	wg.Wait()
	r.mu.Lock()
	for _, h := range hs {
		b, _ := json.Marshal(h)
		r.hhists[h.ID] = b
		r.Sigs[fmt.Sprintf("hh-%x", sha1.Sum(b))[:16]] = struct{}{}
	}
	r.NHist += len(hs)
	r.mu.Unlock()
}

// searchViolation: a pure function of its logged arguments returned something else than its meaning.
func (r *SeqRun) searchViolation(line string) {
	os.MkdirAll("/verif/replays", 0o755)
	r.mu.Lock()
	n := len(r.Viol)
	r.mu.Unlock()
	p := fmt.Sprintf("/verif/replays/%s-seed%d-search%d.json", r.P.Prop, r.Seed, n)
	b, _ := json.MarshalIndent(map[string]any{"property": r.P.Prop, "profile": r.P.Prop, "search_case": json.RawMessage(line),
		"note": "the real function returned a result that differs from its declarative meaning (TraceSearch)"}, "", " ")
	os.WriteFile(p, b, 0o644)
	r.mu.Lock()
	r.Viol = append(r.Viol, Violation{Prop: r.P.Prop, Replay: p})
	r.mu.Unlock()
	fmt.Printf("VIOLATION property=%s replay=%s\n  search case: %s\n", r.P.Prop, p, truncate(line, 300))
}
