package main

import (
	"errors"
	"fmt"
	"math/rand"
	"path/filepath"

	"github.com/klev-dev/klevdb/pkg/index"
	"github.com/klev-dev/klevdb/pkg/segment"
)

// Binding of Search.tla: the real binary searches on every small array.

type segOff int64

func (s segOff) GetOffset() int64 { return int64(s) }

func searchErr(err error) string {
	switch {
	case err == nil:
		return ""
	case errors.Is(err, index.ErrOffsetIndexEmpty), errors.Is(err, index.ErrTimeIndexEmpty):
		return "Empty"
	case errors.Is(err, index.ErrOffsetAfterEnd), errors.Is(err, index.ErrTimeAfterEnd):
		return "AfterEnd"
	case errors.Is(err, segment.ErrOffsetRelative):
		return "Relative"
	case errors.Is(err, index.ErrOffsetBeforeStart), errors.Is(err, index.ErrTimeBeforeStart), errors.Is(err, segment.ErrOffsetBeforeStart):
		return "BeforeStart"
	case errors.Is(err, index.ErrOffsetNotFound):
		return "NotFound"
	}
	return "Other:" + err.Error()
}

// runSearchCases enumerates arrays over 0..maxVal (strictly increasing up to maxLen; non-decreasing up to maxLenT for
// timestamps) and all probes -3..maxVal+2 and records the results of the named functions.
func runSearchCases(r *SeqRun, fns []string, maxLen, maxVal, maxLenT int) {
	path := filepath.Join(r.Scratch, "trace-search.ndjson")
	tw, err := NewTraceWriter(path, nil)
	if err != nil {
		r.infra("search trace: %v", err)
		return
	}
	want := map[string]bool{}
	for _, f := range fns {
		want[f] = true
	}
	res := func(errs string, i, j int) map[string]any { return map[string]any{"err": errs, "i": i, "j": j} }
	emit := func(fn string, a []int64, p int64, rr map[string]any) {
		if a == nil {
			a = []int64{}
		}
		defer func() {
			if x := recover(); x != nil {
				tw.Emit(map[string]any{"ev": "search", "fn": fn, "a": a, "p": p, "r": res("Panic:"+fmt.Sprint(x), 0, 0)})
			}
		}()
		tw.Emit(map[string]any{"ev": "search", "fn": fn, "a": a, "p": p, "r": rr})
	}
	pos2i := func(pos int64) int { return int(pos/10) + 1 } // item k (0-based) has position 10*k
	var inc [][]int64
	for mask := 0; mask < 1<<(maxVal+1); mask++ {
		var a []int64
		for v := 0; v <= maxVal; v++ {
			if mask&(1<<v) != 0 {
				a = append(a, int64(v))
			}
		}
		if len(a) <= maxLen {
			inc = append(inc, a)
		}
	}
	// beyond the exhaustive small scope: seeded long arrays (12..70 items, holes), every probe in range; a
	// shortcut that only exists for long indexes (e.g. "search the last 16 items first") is out of reach of the
	// small scope
	rng := rand.New(rand.NewSource(r.Seed*7919 + 17))
	nLong := tierN(r.Tier, 40, 1500)
	hi := map[string]int64{} // per long array: the largest probe
	for n := 0; n < nLong; n++ {
		ln := 12 + rng.Intn(59)
		var a []int64
		v := int64(rng.Intn(3))
		for len(a) < ln {
			a = append(a, v)
			v += 1 + int64(rng.Intn(3))*int64(rng.Intn(2))
		}
		hi[fmt.Sprint(a)] = v + 1
		inc = append(inc, a)
	}
	for _, a := range inc {
		top := int64(maxVal + 2)
		if h, ok := hi[fmt.Sprint(a)]; ok && len(a) >= 12 {
			top = h
		}
		items := make([]index.Item, len(a))
		segs := make([]segOff, len(a))
		for k, v := range a {
			items[k] = index.Item{Offset: v, Position: int64(10 * k)}
			segs[k] = segOff(v)
		}
		for p := int64(-3); p <= top; p++ {
			func() {
				defer func() {
					if x := recover(); x != nil {
						emit("panic", a, p, res("Panic:"+fmt.Sprint(x), 0, 0))
					}
				}()
				if want["index.Consume"] {
					pos, maxp, err := index.Consume(items, p)
					if err != nil {
						emit("index.Consume", a, p, res(searchErr(err), 0, 0))
					} else {
						emit("index.Consume", a, p, res("", pos2i(pos), pos2i(maxp)))
					}
				}
				if want["index.Get"] {
					pos, err := index.Get(items, p)
					if err != nil {
						emit("index.Get", a, p, res(searchErr(err), 0, 0))
					} else {
						emit("index.Get", a, p, res("", pos2i(pos), 0))
					}
				}
				if len(a) > 0 && want["segment.Consume"] {
					_, i := segment.Consume(segs, p)
					emit("segment.Consume", a, p, res("", i+1, 0))
				}
				if len(a) > 0 && want["segment.Get"] {
					_, i, err := segment.Get(segs, p)
					if err != nil {
						emit("segment.Get", a, p, res(searchErr(err), 0, 0))
					} else {
						emit("segment.Get", a, p, res("", i+1, 0))
					}
				}
			}()
		}
	}
	if want["index.Time"] {
		var rec func(a []int64)
		rec = func(a []int64) {
			items := make([]index.Item, len(a))
			for k, v := range a {
				items[k] = index.Item{Offset: int64(k), Position: int64(10 * k), Timestamp: v}
			}
			for p := int64(-3); p <= int64(maxVal+2); p++ {
				pos, err := index.Time(items, p)
				if err != nil {
					emit("index.Time", a, p, res(searchErr(err), 0, 0))
				} else {
					emit("index.Time", a, p, res("", pos2i(pos), 0))
				}
			}
			if len(a) < maxLenT {
				lo := int64(0)
				if len(a) > 0 {
					lo = a[len(a)-1]
				}
				for v := lo; v <= int64(maxVal); v++ {
					rec(append(append([]int64(nil), a...), v))
				}
			}
		}
		rec(nil)
		// long non-decreasing timestamp arrays with runs of equal values
		for n := 0; n < nLong; n++ {
			ln := 12 + rng.Intn(59)
			a := make([]int64, 0, ln)
			v := int64(rng.Intn(3))
			for len(a) < ln {
				a = append(a, v)
				if rng.Intn(3) > 0 { // runs of equal timestamps, 2-3 items on average
					v += int64(rng.Intn(3))
				}
			}
			items := make([]index.Item, len(a))
			for k, t := range a {
				items[k] = index.Item{Offset: int64(k), Position: int64(10 * k), Timestamp: t}
			}
			for p := int64(-2); p <= v+2; p++ {
				pos, err := index.Time(items, p)
				if err != nil {
					emit("index.Time", a, p, res(searchErr(err), 0, 0))
				} else {
					emit("index.Time", a, p, res("", pos2i(pos), 0))
				}
			}
		}
	}
	tw.Close()
	r.mu.Lock()
	r.shards = append(r.shards, path)
	r.shardSpec[path] = [2]string{"TraceSearch.tla", "TraceSearch.cfg"}
	r.Events += tw.n
	for k, v := range tw.counts {
		r.Counts[k] += v
	}
	r.mu.Unlock()
}
