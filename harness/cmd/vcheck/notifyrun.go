package main

import (
	"bufio"
	"context"
	"encoding/json"
	"errors"
	"fmt"
	"math/rand"
	"os"
	"path/filepath"
	"runtime"
	"strconv"
	"strings"
	"sync"
	"sync/atomic"
	"time"

	"github.com/klev-dev/klevdb"
	"github.com/klev-dev/klevdb/pkg/notify"
	"github.com/klev-dev/klevdb/pkg/vhook"
)

// ---------------------------------------------------------------------------
// pause-point dispatch: the hook calls the handler registered for the calling goroutine

type pauseHandler interface{ Arrive(point string) }

var pauseProcs sync.Map // goid -> pauseHandler
var pauseOnce sync.Once

func curGoid() int64 {
	var buf [64]byte
	n := runtime.Stack(buf[:], false)
	s := strings.TrimPrefix(string(buf[:n]), "goroutine ")
	if i := strings.IndexByte(s, ' '); i > 0 {
		id, _ := strconv.ParseInt(s[:i], 10, 64)
		return id
	}
	return -1
}

func installPause() {
	pauseOnce.Do(func() {
		vhook.Pause = func(point string) {
			if h, ok := pauseProcs.Load(curGoid()); ok {
				h.(pauseHandler).Arrive(point)
			}
		}
	})
	pauseInstalled.Store(true)
	installTap() // file-system steps are pause points too ("fs.fsync", "fs.rename", ...)
}

// ---------------------------------------------------------------------------
// C18, notifier level: replay of TLC-generated schedules

type nproc struct {
	name   string
	kind   string // waiter | setter | closer
	off    int64
	val    int64
	at     chan string
	gate   chan struct{}
	free   atomic.Bool
	cur    string
	held   bool
	ret    string
	ctx    context.Context
	cancel context.CancelFunc
	// logical clocks
	start, end int64
	cancelled  bool
}

func (p *nproc) Arrive(point string) {
	if !strings.HasPrefix(point, "notify.") || strings.HasSuffix(point, ".done") || p.free.Load() {
		return
	}
	p.at <- point
	<-p.gate
}

var modelPC = map[string]string{
	"start": "start", "notify.wait.slow": "acquire", "notify.wait.acquired": "probe", "notify.wait.probed": "release",
	"notify.wait.released": "park", "notify.set.acquired": "store", "notify.set.stored": "bcast", "notify.set.broadcast": "renew",
	"notify.close.acquired": "bcast", "notify.close.broadcast": "closebar", "done": "done",
}

type nstep struct {
	P string `json:"p"`
	A string `json:"a"`
}

func waitErrClass(err error) string {
	switch {
	case err == nil:
		return "ok"
	case errors.Is(err, notify.ErrOffsetNotifyClosed):
		return "closed"
	case errors.Is(err, context.Canceled), errors.Is(err, context.DeadlineExceeded):
		return "ctx"
	}
	return "other"
}

// the constants of MCNotify.tla
var mcWOff = map[string]int64{"w1": 0, "w2": 1, "w3": 2}
var mcSVal = map[string]int64{"s1": 1, "s2": 2}

type nrun struct {
	o      *notify.Offset
	procs  map[string]*nproc
	clock  atomic.Int64
	order  []string
	closed atomic.Int64 // clock at which Close returned (0 = not)
}

func (n *nrun) spawn(name, kind string, off, val int64) *nproc {
	p := &nproc{name: name, kind: kind, off: off, val: val, at: make(chan string, 1), gate: make(chan struct{}), cur: "init"}
	p.ctx, p.cancel = context.WithCancel(context.Background())
	n.procs[name] = p
	n.order = append(n.order, name)
	go func() {
		id := curGoid()
		pauseProcs.Store(id, p)
		defer pauseProcs.Delete(id)
		if !p.free.Load() {
			p.at <- "start"
			<-p.gate
		}
		p.start = n.clock.Add(1)
		switch kind {
		case "waiter":
			p.ret = waitErrClass(n.o.Wait(p.ctx, off))
		case "setter":
			n.o.Set(val)
		case "closer":
			n.o.Close()
			n.closed.Store(n.clock.Add(1))
		}
		p.end = n.clock.Add(1)
		p.free.Store(true)
		p.at <- "done"
	}()
	return p
}

// step releases p and waits until it stops again (pause point or return).
func (n *nrun) step(p *nproc, timeout time.Duration) bool {
	if p.cur == "done" {
		return false
	}
	if p.held {
		p.held = false
		p.gate <- struct{}{}
	}
	select {
	case pt := <-p.at:
		p.cur = pt
		p.held = pt != "done"
		return true
	case <-time.After(timeout):
		return false
	}
}

func (n *nrun) final(ws []string) map[string]any {
	// quiescence: everything that the property says must return gets time to do so
	for _, name := range n.order {
		p := n.procs[name]
		p.free.Store(true)
		if p.held {
			p.held = false
			p.gate <- struct{}{}
		}
	}
	next := int64(0)
	for _, name := range n.order {
		p := n.procs[name]
		if p.kind != "waiter" {
			n.awaitDone(p, 5*time.Second)
			_ = p
		}
	}
	closed := n.closed.Load() != 0
	// a Set certainly took effect only if it returned before Close started (a Set overlapping Close may be a no-op)
	certain := func(q *nproc) bool {
		if q.kind != "setter" || q.end == 0 {
			return false
		}
		for _, cn := range n.order {
			if c := n.procs[cn]; c.kind == "closer" && c.start != 0 && q.end > c.start {
				return false
			}
		}
		return true
	}
	for _, qn := range n.order {
		if q := n.procs[qn]; certain(q) && q.val > next {
			next = q.val
		}
	}
	var out []map[string]any
	for _, name := range ws {
		p := n.procs[name]
		must := next > p.off || p.cancelled || closed
		if must {
			n.awaitDone(p, 5*time.Second)
		} else {
			n.awaitDone(p, 40*time.Millisecond)
		}
		end := p.end
		ret := p.ret
		if p.cur != "done" {
			end, ret = 1<<62, ""
		}
		setsBefore, closeBefore := 0, false
		nextAtStart := int64(0)
		for _, qn := range n.order {
			q := n.procs[qn]
			if q.kind == "setter" && q.start != 0 && q.start < end {
				setsBefore++
			}
			if certain(q) && q.end < p.start && q.val > nextAtStart {
				nextAtStart = q.val
			}
			if q.kind == "closer" && q.start != 0 && q.start < end {
				closeBefore = true
			}
		}
		afterClose := n.closed.Load() != 0 && p.start > n.closed.Load()
		out = append(out, map[string]any{"w": name, "off": p.off, "ret": ret, "cancelled": p.cancelled, "nextAtStart": nextAtStart,
			"setsBefore": setsBefore, "closeBefore": closeBefore, "afterClose": afterClose})
	}
	// clean up the ones still blocked
	for _, name := range ws {
		p := n.procs[name]
		if p.cur != "done" {
			p.cancel()
			n.awaitDone(p, 5*time.Second)
		}
	}
	if out == nil {
		out = []map[string]any{}
	}
	nextHi := int64(0) // upper bound: every Set that was started may have taken effect
	for _, qn := range n.order {
		if q := n.procs[qn]; q.kind == "setter" && q.start != 0 && q.val > nextHi {
			nextHi = q.val
		}
	}
	return map[string]any{"ev": "nfinal", "ws": out, "next": next, "nextHi": nextHi, "closed": closed}
}

// closedBefore: the Set started after Close had returned (it is then a no-op)
func (n *nrun) closedBefore(q *nproc) bool {
	c := n.closed.Load()
	return c != 0 && q.start > c
}

func (n *nrun) awaitDone(p *nproc, d time.Duration) {
	if p.cur == "done" {
		return
	}
	select {
	case pt := <-p.at:
		p.cur = pt
	case <-time.After(d):
		if d >= time.Second {
			notifyStuck.Add(1)
		}
	}
}

// notifyStuck counts calls that did not return within seconds although they had to. Every one of them is recorded
// (and judged a violation by TLC); after a few dozen the remaining scenarios are skipped: code that deadlocks would
// otherwise cost 5 s per wait in thousands of scenarios.
var notifyStuck atomic.Int64

func stuckBudgetGone() bool { return notifyStuck.Load() >= 24 }

// bounded runs a call that may never return (Publish / Close on a deadlocked notifier) in a goroutine of its own.
func bounded(f func()) bool {
	done := make(chan struct{})
	go func() { f(); close(done) }()
	select {
	case <-done:
		return true
	case <-time.After(5 * time.Second):
		notifyStuck.Add(1)
		return false
	}
}

// replaySchedule steps the real notifier through one TLC behaviour.
func replaySchedule(id int, sched []nstep, steps, finals *TraceWriter) (drift bool) {
	installPause()
	n := &nrun{o: notify.NewOffset(0), procs: map[string]*nproc{}}
	for _, w := range []string{"w1", "w2", "w3"} {
		n.spawn(w, "waiter", mcWOff[w], 0)
	}
	for _, s := range []string{"s1", "s2"} {
		n.spawn(s, "setter", 0, mcSVal[s])
	}
	n.spawn("closer", "closer", 0, 0)
	for _, name := range n.order { // everybody parks at its start gate
		p := n.procs[name]
		p.cur = <-p.at
		p.held = true
	}
	steps.Emit(map[string]any{"ev": "reset", "hid": id})
	for _, st := range sched {
		p := n.procs[st.P]
		if st.A == "Cancel" {
			p.cancelled = true
			p.cancel()
			steps.Emit(map[string]any{"ev": "nstep", "hid": id, "p": st.P, "a": st.A, "at": "", "ret": p.ret})
			continue
		}
		if !n.step(p, 3*time.Second) {
			drift = true // the real code cannot take a step the model takes: stop stepping
			break
		}
		steps.Emit(map[string]any{"ev": "nstep", "hid": id, "p": st.P, "a": st.A, "at": modelPC[p.cur], "ret": p.ret})
	}
	f := n.final([]string{"w1", "w2", "w3"})
	f["hid"], f["drift"] = id, drift
	finals.Emit(map[string]any{"ev": "reset", "hid": id})
	finals.Emit(f)
	return drift
}

// freeRunNotify: W waiters, P setters, optional Close and cancels, no gates.
func freeRunNotify(id int, seed int64, finals *TraceWriter) {
	rng := rand.New(rand.NewSource(seed*7907 + int64(id)))
	n := &nrun{o: notify.NewOffset(0), procs: map[string]*nproc{}}
	var ws []string
	W, P := 1+rng.Intn(8), rng.Intn(4)
	total := W + P + 1
	names := make([]string, 0, total)
	for i := 0; i < W; i++ {
		names = append(names, fmt.Sprintf("w%d", i))
	}
	for i := 0; i < P; i++ {
		names = append(names, fmt.Sprintf("s%d", i))
	}
	withClose := rng.Intn(3) == 0
	if withClose {
		names = append(names, "closer")
	}
	rng.Shuffle(len(names), func(i, j int) { names[i], names[j] = names[j], names[i] })
	for _, nm := range names {
		var p *nproc
		switch nm[0] {
		case 'w':
			p = &nproc{name: nm, kind: "waiter", off: int64(rng.Intn(5)) - 1}
			ws = append(ws, nm)
		case 's':
			p = &nproc{name: nm, kind: "setter", val: int64(1 + rng.Intn(4))}
		default:
			p = &nproc{name: nm, kind: "closer"}
		}
		p.at, p.gate = make(chan string, 1), make(chan struct{})
		p.ctx, p.cancel = context.WithCancel(context.Background())
		p.free.Store(true)
		n.procs[nm] = p
		n.order = append(n.order, nm)
		pp := p
		go func() {
			if d := rng.Intn(3); d > 0 {
				time.Sleep(time.Duration(d*50) * time.Microsecond)
			}
			pp.start = n.clock.Add(1)
			switch pp.kind {
			case "waiter":
				pp.ret = waitErrClass(n.o.Wait(pp.ctx, pp.off))
			case "setter":
				n.o.Set(pp.val)
			case "closer":
				n.o.Close()
				n.closed.Store(n.clock.Add(1))
			}
			pp.end = n.clock.Add(1)
			pp.at <- "done"
		}()
		if p.kind == "waiter" && rng.Intn(6) == 0 {
			p.cancelled = true
			go func() { time.Sleep(100 * time.Microsecond); pp.cancel() }()
		}
	}
	time.Sleep(2 * time.Millisecond)
	f := n.final(ws)
	f["hid"], f["drift"] = id, false
	finals.Emit(map[string]any{"ev": "reset", "hid": id})
	finals.Emit(f)
}

// ---------------------------------------------------------------------------
// C18, blocking log level: deterministic phases on OpenBlocking

type bres struct {
	Err  string `json:"err"`
	Next int64  `json:"next"`
	Msgs []MM   `json:"msgs"`
}

type bwaiter struct {
	off    int64
	key    string
	done   chan bres
	cancel context.CancelFunc
	res    *bres
}

func (x *Exec) bresOf(n int64, ms []klevdb.Message, err error) bres {
	e := errClass(err)
	if err != nil && errors.Is(err, notify.ErrOffsetNotifyClosed) {
		e = "Closed"
	}
	return bres{Err: e, Next: n, Msgs: x.conv(ms)}
}

func blockingScenario(id int, seed int64, root string, tw *TraceWriter) {
	rng := rand.New(rand.NewSource(seed*104729 + int64(id)))
	dir := filepath.Join(root, fmt.Sprintf("bl-%d", id))
	os.MkdirAll(dir, 0o700)
	defer os.RemoveAll(dir)
	x := NewExec(&History{ID: id, Keys: true, Times: false, Mono: true}, dir, tw, Obs{})
	var bl blog
	var err error
	opts := klevdb.Options{KeyIndex: true, Rollover: int64(100 + rng.Intn(300))}
	vid := 0
	if id%3 == 2 {
		// the blocking log is opened on a log that already has messages and holes (fewer messages than offsets):
		// where the notifier starts is part of the wrappers
		if l0, e0 := klevdb.Open(dir, opts); e0 == nil {
			var b []klevdb.Message
			for i := 0; i < 4+rng.Intn(6); i++ {
				vid++
				v := valueBytes(vid, 12)
				x.vals[string(v)] = len(x.vals) + 1
				b = append(b, klevdb.Message{Key: keyBytes[[]string{"a", "b", "g"}[vid%3]], Value: v, Time: time.UnixMicro(x.t0 + int64(vid))})
			}
			l0.Publish(b)
			del := map[int64]struct{}{}
			for i := 0; i < 1+rng.Intn(4); i++ {
				del[int64(rng.Intn(len(b)))] = struct{}{}
			}
			klevdb.DeleteMulti(context.Background(), l0, del, noBackoff)
			l0.Close()
		}
	}
	if id%2 == 1 { // every other scenario through the typed wrappers (OpenTBlocking)
		bl, err = openTypedBL(dir, opts)
	} else {
		bl, err = klevdb.OpenBlocking(dir, opts)
	}
	if err != nil {
		tw.Emit(map[string]any{"ev": "bimmediate", "hid": id, "returned": false, "r": bres{Err: "open: " + err.Error(), Msgs: []MM{}}, "ref": bres{Msgs: []MM{}}})
		return
	}
	tw.Emit(map[string]any{"ev": "reset", "hid": id})
	publish := func(n int) {
		var b []klevdb.Message
		for i := 0; i < n; i++ {
			vid++
			v := valueBytes(vid, 12)
			x.vals[string(v)] = len(x.vals) + 1
			b = append(b, klevdb.Message{Key: keyBytes[[]string{"a", "b", "g"}[vid%3]], Value: v, Time: time.UnixMicro(x.t0 + int64(vid))})
		}
		bounded(func() { bl.Publish(b) })
	}
	start := func(off int64, key string) *bwaiter {
		ctx, cancel := context.WithCancel(context.Background())
		w := &bwaiter{off: off, key: key, done: make(chan bres, 1), cancel: cancel}
		go func() {
			if key == "" {
				n, ms, err := bl.ConsumeBlocking(ctx, off, 10)
				w.done <- x.bresOf(n, ms, err)
			} else {
				n, ms, err := bl.ConsumeByKeyBlocking(ctx, keyBytes[key], off, 10)
				w.done <- x.bresOf(n, ms, err)
			}
		}()
		return w
	}
	ref := func(off int64, key string) bres {
		if key == "" {
			n, ms, err := bl.Consume(off, 10)
			return x.bresOf(n, ms, err)
		}
		n, ms, err := bl.ConsumeByKey(keyBytes[key], off, 10)
		return x.bresOf(n, ms, err)
	}
	await := func(w *bwaiter, d time.Duration) bool {
		if w.res != nil {
			return true
		}
		select {
		case r := <-w.done:
			w.res = &r
			return true
		case <-time.After(d):
			if d >= time.Second {
				notifyStuck.Add(1)
			}
			return false
		}
	}
	empty := bres{Msgs: []MM{}}
	rounds := 2 + rng.Intn(3)
	for round := 0; round < rounds; round++ {
		if round > 0 || id%3 != 2 { // on a pre-filled log the first round runs before anything is published through the wrapper
			publish(rng.Intn(4))
		}
		next, _ := bl.NextOffset()
		// below next or relative: returns at once with Consume's result
		for _, off := range []int64{klevdb.OffsetOldest, klevdb.OffsetNewest, 0, next - 1, next - 2, next / 2} {
			if off >= next || off < -2 {
				continue
			}
			key := []string{"", "", "a"}[rng.Intn(3)]
			w := start(off, key)
			ok := await(w, 5*time.Second)
			r := empty
			if ok {
				r = *w.res
			}
			tw.Emit(map[string]any{"ev": "bimmediate", "hid": id, "off": off, "key": key, "next": next, "returned": ok, "r": r, "ref": ref(off, key)})
		}
		// at and beyond next: stay blocked while nothing happens
		var ws []*bwaiter
		for _, d := range []int64{0, 0, 1, 2} {
			key := []string{"", "", "b"}[rng.Intn(3)]
			ws = append(ws, start(next+d, key))
		}
		time.Sleep(15 * time.Millisecond)
		for _, w := range ws {
			still := !await(w, 0)
			tw.Emit(map[string]any{"ev": "bblocked", "hid": id, "off": w.off, "next": next, "still": still})
		}
		// one of them is cancelled
		ci := rng.Intn(len(ws))
		if ws[ci].res == nil {
			ws[ci].cancel()
			ok := await(ws[ci], 5*time.Second)
			r := empty
			if ok {
				r = *ws[ci].res
			}
			tw.Emit(map[string]any{"ev": "bcancel", "hid": id, "off": ws[ci].off, "returned": ok, "r": r})
		}
		// a publish: every waiter whose offset is passed wakes with what Consume returns at that moment
		n := 1 + rng.Intn(2)
		publish(n)
		newNext, _ := bl.NextOffset()
		for i, w := range ws {
			if i == ci {
				continue
			}
			d := 40 * time.Millisecond
			if newNext > w.off {
				d = 5 * time.Second
			}
			ok := await(w, d)
			r := empty
			if ok {
				r = *w.res
			}
			tw.Emit(map[string]any{"ev": "bwoken", "hid": id, "off": w.off, "key": w.key, "oldNext": next, "newNext": newNext, "returned": ok, "r": r, "ref": ref(w.off, w.key)})
			if !ok {
				w.cancel()
				await(w, 5*time.Second)
			}
		}
	}
	// Close wakes everybody; a wait at or beyond next that starts after Close fails
	next, _ := bl.NextOffset()
	w1 := start(next, "")
	w2 := start(next+3, "a")
	time.Sleep(5 * time.Millisecond)
	bounded(func() { bl.Close() })
	for _, w := range []*bwaiter{w1, w2} {
		ok := await(w, 5*time.Second)
		r := empty
		if ok {
			r = *w.res
		}
		tw.Emit(map[string]any{"ev": "bclosed", "hid": id, "off": w.off, "returned": ok, "startedAfterClose": false, "r": r})
	}
	w3 := start(next, "")
	ok := await(w3, 5*time.Second)
	r := empty
	if ok {
		r = *w3.res
	}
	tw.Emit(map[string]any{"ev": "bclosed", "hid": id, "off": next, "returned": ok, "startedAfterClose": true, "r": r})
}

// ---------------------------------------------------------------------------

func notifySchedulesFromSpec(cfg, scratch string, timeout time.Duration) ([][]nstep, int, error) {
	run := runTLC("NotifyGen.tla", cfg, 1, true, nil, nil, timeout, scratch)
	if run.Infra != nil {
		return nil, 0, run.Infra
	}
	var out [][]nstep
	sc := bufio.NewScanner(strings.NewReader(run.Out))
	sc.Buffer(make([]byte, 1<<20), 1<<26)
	for sc.Scan() {
		line := sc.Text()
		if !strings.HasPrefix(line, `"CASE `) {
			continue
		}
		s, err := strconv.Unquote(line)
		if err != nil {
			return nil, 0, err
		}
		var c struct {
			Hist []nstep `json:"hist"`
		}
		if err := json.Unmarshal([]byte(strings.TrimPrefix(s, "CASE ")), &c); err != nil {
			return nil, 0, err
		}
		if len(c.Hist) > 0 {
			out = append(out, c.Hist)
		}
	}
	if len(out) == 0 {
		return nil, 0, fmt.Errorf("NotifyGen produced no schedules: %s", tail(run.Out, 20))
	}
	return out, run.Distinct, nil
}

// runNotify is the C18 driver (Extra of its profile).
func runNotify(r *SeqRun) {
	scheds, nstates, err := notifySchedulesFromSpec("notifygen_q.cfg", r.Scratch, 15*time.Minute)
	if err != nil {
		r.infra("notify generator: %v", err)
		return
	}
	r.GenStates = nstates
	max := tierN(r.Tier, 1200, len(scheds))
	if len(scheds) > max { // seeded stride
		var sel [][]nstep
		step := float64(len(scheds)) / float64(max)
		for i := 0; i < max; i++ {
			sel = append(sel, scheds[int(float64(r.Seed%5)/5*step+float64(i)*step)%len(scheds)])
		}
		scheds = sel
	}
	r.NGen = len(scheds)
	nfree := tierN(r.Tier, 1500, 200000)
	nblock := tierN(r.Tier, 40, 2500)
	workers := 12
	var wg sync.WaitGroup
	var drifts atomic.Int64
	for w := 0; w < workers; w++ {
		wg.Add(1)
		go func(w int) {
			defer wg.Done()
			sp := filepath.Join(r.Scratch, fmt.Sprintf("steps-%02d.ndjson", w))
			fp := filepath.Join(r.Scratch, fmt.Sprintf("trace-ntf-%02d.ndjson", w))
			steps, _ := NewTraceWriter(sp, nil)
			finals, _ := NewTraceWriter(fp, r.P.KF)
			for i := w; i < nblock && !stuckBudgetGone(); i += workers {
				blockingScenario(2000000+i, r.Seed, r.Scratch, finals)
			}
			for i := w; i < len(scheds) && !stuckBudgetGone(); i += workers {
				if replaySchedule(i, scheds[i], steps, finals) {
					drifts.Add(1)
				}
			}
			for i := w; i < nfree && !stuckBudgetGone(); i += workers {
				freeRunNotify(1000000+i, r.Seed, finals)
			}
			steps.Close()
			finals.Close()
			r.mu.Lock()
			r.shards = append(r.shards, fp)
			r.stepShards = append(r.stepShards, sp)
			r.Events += finals.n + steps.n
			for k, v := range finals.counts {
				r.Counts[k] += v
			}
			for k, v := range steps.counts {
				r.Counts[k] += v
			}
			r.mu.Unlock()
		}(w)
	}
	wg.Wait()
	r.Drift += int(drifts.Load())
	r.NHist += len(scheds) + nfree + nblock
	for i := range scheds {
		r.Sigs[fmt.Sprintf("sched-%d", i)] = struct{}{}
		r.ncases[i] = &ncaseRef{Kind: "schedule", ID: i, Seed: r.Seed, Sched: scheds[i]}
	}
	for i := 0; i < nfree; i++ {
		r.ncases[1000000+i] = &ncaseRef{Kind: "free", ID: 1000000 + i, Seed: r.Seed}
	}
	for i := 0; i < nblock; i++ {
		r.ncases[2000000+i] = &ncaseRef{Kind: "blocking", ID: 2000000 + i, Seed: r.Seed}
	}
	// step-level validation: rejections are model drift, never a verdict
	var wg2 sync.WaitGroup
	for _, sp := range r.stepShards {
		wg2.Add(1)
		go func(sp string) {
			defer wg2.Done()
			run, bad := validateTrace("TraceNotify.tla", "TraceNotify.cfg", sp, r.Scratch)
			r.mu.Lock()
			defer r.mu.Unlock()
			if run.Infra != nil {
				r.Notes = append(r.Notes, "step-level validation could not run: "+truncate(run.Infra.Error(), 300))
				r.Drift++
				return
			}
			r.States += run.Distinct
			r.Trans += run.Generated
			if bad != 0 {
				r.Drift++
				lines, _ := readLines(sp)
				if bad <= len(lines) {
					fmt.Printf("MODEL-DRIFT notify step trace %s rejected at line %d: %s\n", filepath.Base(sp), bad, truncate(lines[bad-1], 300))
				}
			}
		}(sp)
	}
	wg2.Wait()
}
