package main

import (
	"fmt"
	"math/rand"
)

// GenParams controls the random history generator (code -> spec direction).
type GenParams struct {
	Steps     int
	MaxBatch  int
	KeyPool   []string
	VLens     []int
	TimeMode  string // "mono" (never decreasing, equal runs), "any" (decreasing, equal, zero=now), "spaced" (100ms apart, for compaction)
	Rollovers []int64
	Versions  bool // vary NewSegmentsVersion / Keep / Eager, run Migrate between sessions
	ChkRec    bool // use Check / Recover at reopen
	RmIndex   bool // remove index files between sessions
	IndexCfg  int  // -1 random, else bit0 keys, bit1 times
	Tomb      int  // percentage of value-less messages
	// op weights
	WPublish, WDelete, WDeleteMulti, WReopen, WGC, WSync, WTrim, WCompact int
	TrimKinds                                                             []string
	CompactKinds                                                          []string
	SingleVer                                                             int // 0 = vary, else fixed version for the whole history (size trims)
	IxProbe                                                               bool
	Epoch0                                                                bool // times relative to the Unix epoch (tiny absolute values)
	WBackup                                                               int
	ROPct                                                                 int // percentage of reopens that are read-only
	IxProbeExtra                                                          int
	// BigEvery: every BigEvery-th history is drawn in the "big" regime (batches of dozens of messages, segments of
	// dozens to hundreds of messages, hundreds of distinct keys, delete sets of dozens of offsets): whatever only
	// happens beyond a count or size that small histories never reach (search shortcuts, scan pages, tree node growth)
	BigEvery int
	big      bool
	// LargeEvery: every LargeEvery-th history uses bodies beyond 64 KiB (the readers' large-record path), several per
	// segment and per scan batch, of equal or decreasing size
	LargeEvery    int
	EagerOneIn    int // one in EagerOneIn (re)opens uses EagerVersionMigrate (default 5)
	AutoSyncOneIn int // one in AutoSyncOneIn (re)opens uses AutoSync (default 6)
}

var bigKeys = func() []string {
	ks := []string{"n", "a", "b", "g"}
	for n := 1; n <= 300; n++ {
		ks = append(ks, fmt.Sprintf("k%d", n))
	}
	return ks
}()

func bigify(p GenParams, rng *rand.Rand) GenParams {
	p.big = true
	p.MaxBatch = 50
	p.Steps = 9 + rng.Intn(4)
	p.Rollovers = []int64{1500, 6000, 30000, 300000}
	p.VLens = []int{0, 1, 3, 8, 20}
	if len(p.KeyPool) > 4 {
		p.KeyPool = bigKeys
	}
	return p
}

func pick[T any](rng *rand.Rand, xs []T) T { return xs[rng.Intn(len(xs))] }

type genState struct {
	rng    *rand.Rand
	p      GenParams
	next   int64
	vid    int
	t      int64
	gone   map[int64]bool
	times  []int64 // published times by offset
	open   bool
	ro     bool
	h      *History
	newver int
	t0     int64
}

func (g *genState) add(op Op) { g.h.Ops = append(g.h.Ops, op) }

func (g *genState) drawOpts(first bool) *OptSpec {
	o := &OptSpec{Rollover: pick(g.rng, g.p.Rollovers)}
	if g.p.SingleVer != 0 {
		o.NewVer = g.p.SingleVer
		o.Keep = g.rng.Intn(2) == 0
	} else if g.p.Versions {
		o.NewVer = g.rng.Intn(3)
		o.Keep = g.rng.Intn(2) == 0
		n := g.p.EagerOneIn
		if n <= 0 {
			n = 5
		}
		o.Eager = g.rng.Intn(n) == 0
	} else {
		o.NewVer = g.newver
		o.Keep = g.rng.Intn(2) == 0
	}
	if g.p.ChkRec && (!g.h.Times || g.h.Mono) {
		switch g.rng.Intn(4) {
		case 0:
			o.Check = true
		case 1:
			o.Recover = true
		case 2:
			o.Check, o.Recover = true, true
		}
	}
	asn := g.p.AutoSyncOneIn
	if asn <= 0 {
		asn = 6
	}
	o.AutoSync = g.rng.Intn(asn) == 0
	if !first && g.rng.Intn(100) < g.p.ROPct {
		o.RO = true
	}
	if first && g.p.ROPct > 0 && g.rng.Intn(12) == 0 {
		o.RO = true // a read-only handle on a directory that has no log yet
	}
	return o
}

func (g *genState) msg() MsgSpec {
	m := MsgSpec{K: pick(g.rng, g.p.KeyPool)}
	if m.K == "n" && g.rng.Intn(2) == 0 {
		m.KE = true
	}
	if g.rng.Intn(100) >= g.p.Tomb {
		g.vid++
		m.V = g.vid
		m.VL = pick(g.rng, g.p.VLens)
		if m.VL == 0 {
			m.V = 0
		}
	}
	if m.V == 0 && g.rng.Intn(2) == 0 {
		m.VE = true
	}
	switch g.p.TimeMode {
	case "mono":
		if g.h.Epoch0 {
			g.t += int64(pick(g.rng, []int{0, 0, 0, 1})) // stays below the offsets
		} else {
			g.t += int64(pick(g.rng, []int{0, 0, 0, 1, 1, 2, 3}))
		}
		m.T = g.t
	case "spaced":
		g.t += 100000 * int64(pick(g.rng, []int{0, 1, 1, 2}))
		m.T = g.t
	case "spacedany": // on the 100ms grid, in any order
		m.T = g.t0 + 100000*int64(g.rng.Intn(60))
		if m.T > g.t {
			g.t = m.T
		}
	default:
		switch g.rng.Intn(10) {
		case 0:
			m.Z = true
		case 1, 2:
			g.t -= int64(g.rng.Intn(4))
			m.T = g.t
		default:
			g.t += int64(g.rng.Intn(3))
			m.T = g.t
		}
	}
	if g.rng.Intn(3) == 0 {
		m.O = int64(g.rng.Intn(2000)) - 1000 // garbage offset from the caller
	}
	if g.rng.Intn(4) == 0 {
		m.NS = 1 + g.rng.Intn(999) // sub-microsecond digits: the microsecond is kept (floor, also before 1970)
	}
	return m
}

func (g *genState) delSet() []int64 {
	hi := g.next + 2
	set := map[int64]bool{}
	switch g.rng.Intn(12) {
	case 0: // everything
		for o := int64(0); o < g.next; o++ {
			set[o] = true
		}
	case 1: // the last message(s)
		for o := g.next - 1 - int64(g.rng.Intn(3)); o < g.next; o++ {
			if o >= 0 {
				set[o] = true
			}
		}
	case 2: // a contiguous run
		if g.next > 0 {
			a := int64(g.rng.Intn(int(g.next)))
			for o := a; o < a+int64(1+g.rng.Intn(6)) && o < hi; o++ {
				set[o] = true
			}
		}
	case 3: // a prefix
		for o := int64(0); o < int64(g.rng.Intn(int(g.next)+1)); o++ {
			set[o] = true
		}
	default:
		k := 1 + g.rng.Intn(4)
		if g.p.big && g.rng.Intn(2) == 0 {
			k = 20 + g.rng.Intn(60)
		}
		for i := 0; i < k; i++ {
			set[int64(g.rng.Intn(int(hi)))] = true
		}
	}
	if g.rng.Intn(12) == 0 && len(set) > 0 {
		// a relative (negative) offset among ordinary ones: the whole call is rejected - the two named ones and other
		// negative values (OffsetInvalid = -3 as a failed lookup returns it, arbitrary ones; after seeded change S142)
		set[[]int64{-1, -2, -1, -2, -3, -3, -4, -7, -1000}[g.rng.Intn(9)]] = true
	}
	var S []int64
	for o := range set {
		S = append(S, o)
		g.gone[o] = true
	}
	// map iteration order is random: sort for determinism
	for i := range S {
		for j := i + 1; j < len(S); j++ {
			if S[j] < S[i] {
				S[i], S[j] = S[j], S[i]
			}
		}
	}
	return S
}

func genHistory(id int, seed int64, p GenParams) *History {
	rng := rand.New(rand.NewSource(seed*1000003 + int64(id)))
	if p.BigEvery > 0 && id%p.BigEvery == p.BigEvery-1 {
		p = bigify(p, rng)
	} else if p.LargeEvery > 0 && id%p.LargeEvery == p.LargeEvery-1 {
		p.VLens = []int{66000, 66000, 70000, 65505, 3, 20, 0}
		p.Rollovers = []int64{150000, 400000, 1000}
		p.Steps, p.MaxBatch = 12, 3
	}
	h := &History{ID: id}
	ic := p.IndexCfg
	if ic < 0 {
		ic = rng.Intn(4)
	}
	h.Keys, h.Times = ic&1 == 1, ic&2 == 2
	h.Mono = p.TimeMode == "mono" || p.TimeMode == "spaced"
	g := &genState{rng: rng, p: p, gone: map[int64]bool{}, h: h, t: 1000, newver: 2}
	if p.Epoch0 && p.TimeMode == "mono" {
		h.Epoch0 = true
		g.t = 0 // absolute times 0, 1, 2, ... microseconds after the Unix epoch: as small as the offsets
	}
	if p.Epoch0 && p.TimeMode == "any" {
		h.Epoch0 = true
		g.t = -25 // times just before (and across) the Unix epoch: negative microsecond values
	}
	if p.TimeMode == "spaced" || p.TimeMode == "spacedany" {
		g.t = -int64(p.Steps*p.MaxBatch+10) * 200000 // in the past, so that "now - age" cut-offs make sense
		g.t0 = g.t
	}
	if rng.Intn(3) == 0 {
		g.newver = 1
	}
	g.add(Op{Op: "open", O: g.drawOpts(true)})
	g.open = true
	total := p.WPublish + p.WDelete + p.WDeleteMulti + p.WReopen + p.WGC + p.WSync + p.WTrim + p.WCompact
	dirty := true // the source was modified other than by appending since the last backup
	for step := 0; step < p.Steps; step++ {
		if p.WBackup > 0 && !g.ro && rng.Intn(100) < p.WBackup {
			op := Op{Op: "backup", Var: rng.Intn(2)}
			if dirty || rng.Intn(6) == 0 {
				op.Arg = 1
			}
			dirty = false
			g.add(op)
			continue
		}
		r := rng.Intn(total)
		isReopen := r >= p.WPublish+p.WDelete+p.WDeleteMulti && r < p.WPublish+p.WDelete+p.WDeleteMulti+p.WReopen
		if r >= p.WPublish && !isReopen && !(r >= p.WPublish+p.WDelete+p.WDeleteMulti+p.WReopen && r < p.WPublish+p.WDelete+p.WDeleteMulti+p.WReopen+p.WGC+p.WSync) {
			dirty = true // deletes, trims, compactions: not append-only
		}
		if isReopen && p.Versions {
			dirty = true // a reopen may migrate segments (rewrite)
		}
		switch {
		case r < p.WPublish:
			n := rng.Intn(p.MaxBatch + 1)
			if rng.Intn(3) > 0 && n > 2 && !p.big {
				n = 1 + rng.Intn(2)
			}
			op := Op{Op: "publish"}
			for i := 0; i < n; i++ {
				m := g.msg()
				op.Batch = append(op.Batch, m)
				g.times = append(g.times, m.T)
			}
			g.next += int64(n)
			g.add(op)
		case r < p.WPublish+p.WDelete:
			g.add(Op{Op: "delete", S: g.delSet()})
		case r < p.WPublish+p.WDelete+p.WDeleteMulti:
			dop := Op{Op: "delete", S: g.delSet(), Multi: true}
			if rng.Intn(3) == 0 {
				dop.Var = 1 + rng.Intn(3) // the backoff gives up at its Var-th call
				// which offsets are gone then is not known to the generator: it keeps them as possibly live
			}
			g.add(dop)
		case r < p.WPublish+p.WDelete+p.WDeleteMulti+p.WReopen:
			g.add(Op{Op: "close"})
			if p.IxProbe {
				g.add(Op{Op: "ixprobe", Var: p.IxProbeExtra, Arg: rng.Int63()})
			}
			if p.RmIndex && rng.Intn(3) == 0 {
				if rng.Intn(2) == 0 {
					g.add(Op{Op: "rmindex"})
				} else {
					g.add(Op{Op: "rmindex", Segs: []int{rng.Intn(8), rng.Intn(8)}})
				}
			}
			if p.WBackup > 0 && rng.Intn(3) == 0 { // klevdb.Backup of the closed directory (index files possibly missing)
				op := Op{Op: "backup", Var: 1}
				if dirty || rng.Intn(6) == 0 {
					op.Arg = 1
				}
				dirty = false
				g.add(op)
			}
			if p.Versions && rng.Intn(4) == 0 {
				g.add(Op{Op: "migrate", Arg: int64(1 + rng.Intn(2))})
				if rng.Intn(3) == 0 {
					g.add(Op{Op: "migrate", Arg: h.Ops[len(h.Ops)-1].Arg})
				}
			}
			o := g.drawOpts(false)
			if p.WBackup > 0 && rng.Intn(2) == 0 { // the backup as the very first call on the new handle
				o.CB = 1 + rng.Intn(2)
				dirty = false
			}
			g.add(Op{Op: "open", O: o})
		case r < p.WPublish+p.WDelete+p.WDeleteMulti+p.WReopen+p.WGC:
			g.add(Op{Op: "gc", Arg: int64(rng.Intn(2)) * 3600e9})
		case r < p.WPublish+p.WDelete+p.WDeleteMulti+p.WReopen+p.WGC+p.WSync:
			g.add(Op{Op: "sync"})
		case r < p.WPublish+p.WDelete+p.WDeleteMulti+p.WReopen+p.WGC+p.WSync+p.WTrim:
			op := Op{Op: "trim", Kind: pick(rng, p.TrimKinds), Var: rng.Intn(3)}
			switch op.Kind {
			case "offset":
				op.Arg = int64(rng.Intn(int(g.next)+4)) - 2
			case "count":
				op.Arg = int64(rng.Intn(int(g.next) + 3))
			case "size":
				op.Arg = int64(rng.Intn(int(g.next)*70 + 100))
				if rng.Intn(2) == 0 {
					// exactly on (or one byte off) the boundary "Stat size minus the first k live messages"
					op.Arg2 = 1 + int64(rng.Intn(int(g.next)+2))
					op.Arg = int64(rng.Intn(3)) - 1
				}
			case "age":
				if len(g.times) > 0 && rng.Intn(4) > 0 {
					op.Arg = g.times[rng.Intn(len(g.times))] + int64(rng.Intn(3)) - 1
				} else {
					op.Arg = g.t + int64(rng.Intn(7)) - 3
				}
			}
			g.add(op)
		default:
			op := Op{Op: "compact", Kind: pick(rng, p.CompactKinds), Var: rng.Intn(3)}
			// cut-off 50ms off the 100ms grid of message times
			if len(g.times) > 0 {
				op.Arg = g.times[rng.Intn(len(g.times))] + pick(rng, []int64{-50000, 50000})
			} else {
				op.Arg = g.t + 50000
			}
			if rng.Intn(5) == 0 {
				op.Arg = g.t + 50000 // everything
			}
			if op.Kind == "both" {
				// Compact(age): updates before now-age, deletes before now-2*age; keep 2*age inside the range of times
				if rng.Intn(2) == 0 || len(g.times) == 0 {
					op.Arg = g.t/2/100000*100000 + 50000
				} else {
					op.Arg = g.times[rng.Intn(len(g.times))]/2/100000*100000 + 50000
				}
			}
			g.add(op)
		}
	}
	g.add(Op{Op: "close"})
	if p.IxProbe {
		g.add(Op{Op: "ixprobe", Var: p.IxProbeExtra, Arg: rng.Int63()})
	}
	return h
}

// ---- C13 generators

var extremeTimes = []int64{
	-1 << 63, -1<<63 + 1, -62135596800000000 + 1, -1000000, -1, 0, 1, 999999, 1000000,
	1700000000000000, 1700000000000001, 253402300799999999, 1<<62 + 12345, 1<<63 - 2, 1<<63 - 1,
}

// genSweepHistory: messages with key/value lengths sweeping 0..300 (and a few large), times over the int64
// microsecond range, written by the real writer, read back through the head (file reader) and through
// closed segments (mmap reader), before and after reopen.
func genSweepHistory(id int, seed int64) *History {
	rng := rand.New(rand.NewSource(seed*1000003 + int64(id)))
	h := &History{ID: id, Keys: id&1 == 1, Times: id&2 == 2, Mono: false, TimeTable: extremeTimes}
	ver := 1 + (id>>2)&1
	o := &OptSpec{Rollover: int64(2000 + rng.Intn(6000)), NewVer: ver}
	h.Ops = append(h.Ops, Op{Op: "open", O: o})
	vid := 0
	a, b := rng.Intn(301), rng.Intn(301)
	for i := 0; i < 40; i++ {
		op := Op{Op: "publish"}
		for k := 0; k < 1+rng.Intn(4); k++ {
			kl, vl := (a+7*(i*4+k))%301, (b+13*(i*4+k))%301
			if rng.Intn(60) == 0 {
				vl = pick(rng, []int{65536, 300000, 1 << 20})
			}
			m := MsgSpec{K: "n", T: int64(rng.Intn(len(extremeTimes)))}
			if rng.Intn(3) == 0 {
				m.NS = 1 + rng.Intn(999)
			}
			if kl > 0 {
				m.K = fmt.Sprintf("k%d", kl)
			}
			if vl > 0 {
				vid++
				m.V, m.VL = vid, vl
			}
			op.Batch = append(op.Batch, m)
		}
		if rng.Intn(10) == 0 {
			// several bodies beyond 64 KiB in ONE batch (one segment, one Consume batch), sizes equal or decreasing:
			// whatever a reader shares between large records (buffers, mappings) shows as an earlier message
			// carrying a later one's bytes
			for _, vl := range pick(rng, [][]int{{70000, 65600}, {66000, 66000}, {1 << 17, 65505, 65505}}) {
				vid++
				op.Batch = append(op.Batch, MsgSpec{K: fmt.Sprintf("k%d", 1+rng.Intn(300)), T: int64(rng.Intn(len(extremeTimes))), V: vid, VL: vl})
			}
		}
		h.Ops = append(h.Ops, op)
		if i%13 == 12 {
			h.Ops = append(h.Ops, Op{Op: "close"}, Op{Op: "open", O: &OptSpec{Rollover: o.Rollover, NewVer: ver, RO: i%2 == 0}})
			if i%2 == 0 {
				h.Ops = append(h.Ops, Op{Op: "close"}, Op{Op: "open", O: o})
			}
		}
	}
	h.Ops = append(h.Ops, Op{Op: "close"})
	return h
}

// genMigrateHistory: a log of several segments in one format version (with a hole), then a migration to the other
// version - EagerVersionMigrate at the next open, or the package-level Migrate while closed - and more use. For the
// crash checks: a migration rewrites every segment (log and index), steps that nothing else in a history reaches.
func genMigrateHistory(id int, seed int64) *History {
	rng := rand.New(rand.NewSource(seed*1000003 + int64(id)))
	h := &History{ID: id, Keys: id&8 == 8, Times: id&16 == 16, Mono: true}
	from := 1 + rng.Intn(2)
	to := 3 - from
	roll := int64(pick(rng, []int{60, 100, 150}))
	h.Ops = append(h.Ops, Op{Op: "open", O: &OptSpec{Rollover: roll, NewVer: from}})
	vid, t := 0, int64(1000)
	next := int64(0)
	pub := func(n int) {
		op := Op{Op: "publish"}
		for k := 0; k < n; k++ {
			vid++
			t += int64(rng.Intn(2))
			op.Batch = append(op.Batch, MsgSpec{K: pick(rng, []string{"a", "b", "g", "n"}), V: vid, VL: pick(rng, []int{3, 10, 24}), T: t})
		}
		next += int64(n)
		h.Ops = append(h.Ops, op)
	}
	for b := 0; b < 3+rng.Intn(2); b++ {
		pub(1 + rng.Intn(3))
	}
	if rng.Intn(2) == 0 {
		h.Ops = append(h.Ops, Op{Op: "delete", S: []int64{int64(rng.Intn(int(next)))}})
	}
	h.Ops = append(h.Ops, Op{Op: "close"})
	if rng.Intn(2) == 0 {
		h.Ops = append(h.Ops, Op{Op: "migrate", Arg: int64(to)}, Op{Op: "open", O: &OptSpec{Rollover: roll, NewVer: to, Recover: true}})
	} else {
		h.Ops = append(h.Ops, Op{Op: "open", O: &OptSpec{Rollover: roll, NewVer: to, Eager: true, Recover: rng.Intn(2) == 0}})
	}
	pub(1 + rng.Intn(2))
	h.Ops = append(h.Ops, Op{Op: "close"})
	return h
}

// genHugeHistory: thousands of messages in one segment and delete sets of more than a thousand offsets in one call
// (whatever is capped, paged or batched per rewrite shows only there). Few steps: every event carries the whole log.
func genHugeHistory(id int, seed int64) *History {
	rng := rand.New(rand.NewSource(seed*1000003 + int64(id)))
	h := &History{ID: id, Keys: id&1 == 1, Times: id&2 == 2, Mono: true}
	o := &OptSpec{Rollover: int64(pick(rng, []int{1 << 24, 1 << 24, 300000})), NewVer: 1 + rng.Intn(2), Keep: rng.Intn(2) == 0}
	h.Ops = append(h.Ops, Op{Op: "open", O: o})
	vid, t := 0, int64(1000)
	next := int64(0)
	for b := 0; b < 2; b++ {
		op := Op{Op: "publish"}
		for k := 0; k < 1300+rng.Intn(500); k++ {
			vid++
			t += int64(rng.Intn(2))
			op.Batch = append(op.Batch, MsgSpec{K: pick(rng, bigKeys), V: vid, VL: 1 + rng.Intn(3), T: t})
		}
		next += int64(len(op.Batch))
		h.Ops = append(h.Ops, op)
	}
	for d := 0; d < 2; d++ {
		var S []int64
		for off := int64(0); off < next; off++ {
			if rng.Intn(100) < 55 {
				S = append(S, off)
			}
		}
		h.Ops = append(h.Ops, Op{Op: "delete", S: S, Multi: d == 1})
		if d == 0 && rng.Intn(2) == 0 {
			h.Ops = append(h.Ops, Op{Op: "close"}, Op{Op: "open", O: o})
		}
	}
	h.Ops = append(h.Ops, Op{Op: "close"})
	return h
}

// genSynthHistory: a directory written by the reference encoder, then opened and used by the real code.
func genSynthHistory(id int, seed int64) *History {
	rng := rand.New(rand.NewSource(seed*1000003 + int64(id)))
	h := &History{ID: id, Keys: id&1 == 1, Times: id&2 == 2, Mono: true}
	op := Op{Op: "synth", Var: rng.Intn(1 << 30)}
	n := rng.Intn(14)
	off := int64(0)
	if rng.Intn(3) == 0 {
		off = int64(rng.Intn(50))
	}
	t := int64(1000)
	vid := 0
	pool := []string{"n", "a", "b", "g", "h", "i", "k17", "k300"}
	for i := 0; i < n; i++ {
		m := MsgSpec{K: pick(rng, pool)}
		if rng.Intn(5) > 0 {
			vid++
			m.V, m.VL = vid, pick(rng, []int{1, 5, 40, 300})
		}
		t += int64(rng.Intn(3))
		m.T = t
		op.Batch = append(op.Batch, m)
		op.S = append(op.S, off)
		off += int64(1 + rng.Intn(3)/2) // occasional holes
	}
	left := n
	for left > 0 {
		k := 1 + rng.Intn(4)
		if k > left {
			k = left
		}
		op.Segs = append(op.Segs, k)
		left -= k
	}
	if n == 0 || rng.Intn(3) == 0 {
		op.Segs = append(op.Segs, 0) // empty head segment named after the next offset
	}
	h.Ops = append(h.Ops, op)
	o := &OptSpec{Rollover: pick(rng, []int64{60, 300, 5000}), NewVer: rng.Intn(3), RO: rng.Intn(3) == 0, Check: rng.Intn(2) == 0}
	h.Ops = append(h.Ops, Op{Op: "open", O: o})
	if o.RO {
		h.Ops = append(h.Ops, Op{Op: "close"}, Op{Op: "open", O: &OptSpec{Rollover: o.Rollover, NewVer: o.NewVer}})
	}
	// use it: append, delete, reopen
	for i := 0; i < 4; i++ {
		switch rng.Intn(3) {
		case 0:
			b := Op{Op: "publish"}
			for k := 0; k < 1+rng.Intn(2); k++ {
				vid++
				t += int64(rng.Intn(3))
				b.Batch = append(b.Batch, MsgSpec{K: pick(rng, pool), V: vid, VL: 10, T: t})
			}
			h.Ops = append(h.Ops, b)
		case 1:
			h.Ops = append(h.Ops, Op{Op: "delete", S: []int64{int64(rng.Intn(int(off) + 2))}})
		default:
			h.Ops = append(h.Ops, Op{Op: "close"}, Op{Op: "open", O: &OptSpec{Rollover: o.Rollover, NewVer: o.NewVer, Check: true}})
		}
	}
	h.Ops = append(h.Ops, Op{Op: "close"})
	return h
}
