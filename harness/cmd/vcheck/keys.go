package main

import (
	"fmt"
	"math/rand"
	"strings"

	"verif/refcodec"
)

// Key table: model key names -> concrete bytes. "n" is the nil/empty key.
// a/b and c/d are real 64-bit FNV-1a collisions (precomputed, verified at start-up);
// e/f extend the first pair with a common suffix (FNV-1a collisions survive suffixes).
var keyBytes = map[string][]byte{
	"n": nil,
	"a": []byte("8yn0iYCKYHlIj4-BwPqk"),
	"b": []byte("GReLUrM4wMqfg9yzV3KQ"),
	"c": []byte("gMPflVXtwGDXbIhP73TX"),
	"d": []byte("LtHf1prlU1bCeYZEdqWf"),
	"e": []byte("8yn0iYCKYHlIj4-BwPqk/suffix"),
	"f": []byte("GReLUrM4wMqfg9yzV3KQ/suffix"),
	"g": []byte("k"),
	"h": []byte("key-h"),
	"i": []byte(strings.Repeat("long-key-", 33)),
	"j": {0},
	"k": {0xFF, 0xFE},
	"l": []byte("8yn0iYCKYHlIj4-BwPq"), // prefix of a, not colliding
	"m": []byte("user:1"),
	"o": []byte("user:2"),
	"p": []byte("user:3"),
}

var keyNames = []string{"n", "a", "b", "c", "d", "e", "f", "g", "h", "i", "j", "k", "l", "m", "o", "p"}

var keyNameOf = map[string]string{}

func init() {
	// keys of every length 1..300 for the format sweeps (C13): "k<len>"
	for n := 1; n <= 300; n++ {
		b := make([]byte, n)
		rand.New(rand.NewSource(int64(n) * 31)).Read(b)
		b[0] = 0x01
		if n > 1 {
			copy(b[1:], fmt.Sprintf("k%d/", n))
		}
		keyBytes[fmt.Sprintf("k%d", n)] = b
	}
	for n, b := range keyBytes {
		keyNameOf[string(b)] = n
	}
	for _, p := range [][2]string{{"a", "b"}, {"c", "d"}, {"e", "f"}} {
		if refcodec.FNV1a64(keyBytes[p[0]]) != refcodec.FNV1a64(keyBytes[p[1]]) {
			panic("key table: " + p[0] + "/" + p[1] + " do not collide")
		}
	}
}

func keyName(b []byte) string {
	if n, ok := keyNameOf[string(b)]; ok {
		return n
	}
	return fmt.Sprintf("?%x", b)
}

// valueBytes is a deterministic function of (id, length); id 0 has no value.
func valueBytes(id, vlen int) []byte {
	if id == 0 || vlen == 0 {
		return nil
	}
	b := make([]byte, vlen)
	rng := rand.New(rand.NewSource(int64(id)*7919 + 13))
	rng.Read(b)
	copy(b, fmt.Sprintf("%d:", id))
	return b
}
