package main

import (
	"bufio"
	"context"
	"encoding/json"
	"errors"
	"fmt"
	"os"
	"path/filepath"
	"runtime/debug"
	"sort"
	"strings"
	"sync/atomic"
	"time"

	"github.com/klev-dev/klevdb"
)

// ---------------------------------------------------------------------------
// Op lists: the abstract, replayable description of a sequential history.
// Generated randomly (gen.go), by TLC (KlevSeg via Gen.tla) or read from a replay file.

type MsgSpec struct {
	K  string `json:"k"`            // key name from the key table
	KE bool   `json:"ke,omitempty"` // with K == "n": empty non-nil key instead of nil
	V  int    `json:"v"`            // value id, 0 = no value
	VL int    `json:"vl"`           // value length (V > 0)
	VE bool   `json:"ve,omitempty"` // with V == 0: empty non-nil value instead of nil
	T  int64  `json:"t"`            // time, microseconds relative to the history's T0
	Z  bool   `json:"z,omitempty"`  // zero time: the log assigns time.Now()
	O  int64  `json:"o,omitempty"`  // offset supplied by the caller (must be ignored)
	NS int    `json:"ns,omitempty"` // nanoseconds (1..999) on top of the microsecond time: the log keeps the microsecond (floor)
}

type OptSpec struct {
	Rollover int64 `json:"rollover"`
	NewVer   int   `json:"newver"` // 0 = default (V2), 1, 2
	Keep     bool  `json:"keep"`
	Eager    bool  `json:"eager"`
	Check    bool  `json:"check"`
	Recover  bool  `json:"recover"`
	AutoSync bool  `json:"autosync"`
	RO       bool  `json:"ro"`
	CB       int   `json:"cb,omitempty"` // cold backup right after the open, before any query: 1 = Log.Backup, 2 = klevdb.Backup
}

type Op struct {
	Op    string    `json:"op"`
	O     *OptSpec  `json:"o,omitempty"`
	Batch []MsgSpec `json:"batch,omitempty"`
	S     []int64   `json:"s,omitempty"`
	Multi bool      `json:"multi,omitempty"`
	Kind  string    `json:"kind,omitempty"`
	Arg   int64     `json:"arg,omitempty"`
	Arg2  int64     `json:"arg2,omitempty"`
	Segs  []int     `json:"segs,omitempty"` // rmindex: segment positions (mod count); nil = all
	Var   int       `json:"var,omitempty"`  // API variant selector
}

type History struct {
	ID    int  `json:"id"`
	Keys  bool `json:"keys"`
	Times bool `json:"times"`
	Mono  bool `json:"mono"` // published times never decrease with offset
	Ops   []Op `json:"ops"`
	// spec-generated histories: observe only after the last step (every prefix is a case of its own)
	FinalObs bool    `json:"finalobs,omitempty"`
	ExpBases []int64 `json:"expbases,omitempty"` // segment bases the implementation-shaped model predicts
	ExpNext  int64   `json:"expnext,omitempty"`
	// TimeTable: if set, MsgSpec.T is an index into this table of absolute unix-microsecond values
	// (times over the whole int64 range; the trace carries the index: an injective renaming)
	TimeTable []int64 `json:"timetable,omitempty"`
	// Epoch0: times are relative to the Unix epoch itself (absolute microsecond values as small as offsets)
	Epoch0 bool `json:"epoch0,omitempty"`
}

// Observation profile: which sweeps the executor records after every step.
type Obs struct {
	Scan, Next, Consume, Get, Key, Time, Stat, Layout, Size bool
	JudgePublish, JudgeDelete, JudgeOpen, JudgeLayout       bool
	JudgeTrim, JudgeCompact                                 bool
	Maxes                                                   []int64
	KeyQ                                                    []string // keys to query
	Dense                                                   bool     // full sweeps (else sampled for long logs)
}

// ---------------------------------------------------------------------------
// Trace writer

type TraceWriter struct {
	f      *os.File
	w      *bufio.Writer
	n      int
	bytes  int64
	path   string
	counts map[string]int
}

func NewTraceWriter(path string, kf []string) (*TraceWriter, error) {
	f, err := os.Create(path)
	if err != nil {
		return nil, err
	}
	tw := &TraceWriter{f: f, w: bufio.NewWriterSize(f, 1<<20), path: path, counts: map[string]int{}}
	if kf == nil {
		kf = []string{}
	}
	tw.Emit(map[string]any{"ev": "config", "kf": kf})
	return tw, nil
}

func newBufWriter(f *os.File) *bufio.Writer { return bufio.NewWriterSize(f, 1<<20) }

func (tw *TraceWriter) Emit(m map[string]any) {
	b, err := json.Marshal(m)
	if err != nil {
		panic(err)
	}
	tw.w.Write(b)
	tw.w.WriteByte('\n')
	tw.n++
	tw.bytes += int64(len(b)) + 1
	tw.counts[m["ev"].(string)]++
}

func (tw *TraceWriter) Close() error {
	if err := tw.w.Flush(); err != nil {
		return err
	}
	return tw.f.Close()
}

// ---------------------------------------------------------------------------
// message conversion

type MM struct {
	Off  int64  `json:"off"`
	Key  string `json:"key"`
	Val  int    `json:"val"`
	T    int64  `json:"t"`
	Klen int    `json:"klen"`
	Vlen int    `json:"vlen"`
}

const tClamp = int64(1) << 30

func errClass(err error) string {
	switch {
	case err == nil:
		return ""
	case errors.Is(err, klevdb.ErrInvalidOffset):
		return "InvalidOffset"
	case errors.Is(err, klevdb.ErrNotFound):
		return "NotFound"
	case errors.Is(err, klevdb.ErrNoIndex):
		return "NoIndex"
	case errors.Is(err, klevdb.ErrReadonly):
		return "Readonly"
	case errors.Is(err, context.Canceled), errors.Is(err, context.DeadlineExceeded):
		return "Ctx"
	}
	return "Other"
}

// ---------------------------------------------------------------------------
// Executor

type Exec struct {
	progress atomic.Int64 // events emitted + steps started: the watchdog's notion of "still working"

	h    *History
	dir  string
	l    klevdb.Log
	opts klevdb.Options
	cur  OptSpec
	t0   int64 // microseconds
	vals map[string]int
	out  *TraceWriter
	obs  Obs
	opi  int
	minT int64
	maxT int64
	anyT bool
	// stats for evidence
	nOps      int
	lastErr   string
	stateSigs map[string]struct{}
	sigHook   func()
	bdir      string
	bgen      int
	dead      bool // a call panicked or hung: the rest of the history is skipped
}

func NewExec(h *History, dir string, out *TraceWriter, obs Obs) *Exec {
	x := &Exec{h: h, dir: dir, out: out, obs: obs, vals: map[string]int{}, stateSigs: map[string]struct{}{},
		t0: time.Now().UnixMicro()}
	if h.Epoch0 {
		x.t0 = 0
	}
	return x
}

func (x *Exec) emit(ev string, m map[string]any) {
	m["ev"] = ev
	m["hid"] = x.h.ID
	m["opi"] = x.opi
	x.progress.Add(1)
	x.out.Emit(m)
}

func (x *Exec) relT(t time.Time) int64 {
	if x.h.TimeTable != nil {
		for i, v := range x.h.TimeTable {
			if v == t.UnixMicro() {
				return int64(i)
			}
		}
		return -tClamp - 1
	}
	r := t.UnixMicro() - x.t0
	if r > tClamp || r < -tClamp {
		return -tClamp - 1
	}
	return r
}

func (x *Exec) valID(b []byte) int {
	if len(b) == 0 {
		return 0
	}
	if id, ok := x.vals[string(b)]; ok {
		return id
	}
	return -1
}

func (x *Exec) conv1(m klevdb.Message) MM {
	return MM{m.Offset, keyName(m.Key), x.valID(m.Value), x.relT(m.Time), len(m.Key), len(m.Value)}
}

func (x *Exec) conv(ms []klevdb.Message) []MM {
	out := make([]MM, 0, len(ms))
	for _, m := range ms {
		out = append(out, x.conv1(m))
	}
	return out
}

func (x *Exec) one(m klevdb.Message, err error) []MM {
	if err != nil {
		return []MM{}
	}
	return []MM{x.conv1(m)}
}

func (x *Exec) build(batch []MsgSpec) []klevdb.Message {
	msgs := make([]klevdb.Message, len(batch))
	for i, s := range batch {
		var k, v []byte
		k = keyBytes[s.K]
		if s.K == "n" && s.KE {
			k = []byte{}
		}
		if s.V > 0 {
			v = valueBytes(s.V, s.VL)
			if _, ok := x.vals[string(v)]; !ok {
				x.vals[string(v)] = len(x.vals) + 1
			}
		} else if s.VE {
			v = []byte{}
		}
		msgs[i] = klevdb.Message{Offset: s.O, Key: k, Value: v}
		if x.h.TimeTable != nil {
			msgs[i].Time = time.UnixMicro(x.h.TimeTable[s.T]).UTC()
		} else if !s.Z {
			msgs[i].Time = time.UnixMicro(x.t0 + s.T).UTC()
		}
		if s.NS > 0 && !s.Z && !msgs[i].Time.IsZero() {
			if t := msgs[i].Time.Add(time.Duration(s.NS)); t.UnixMicro() == msgs[i].Time.UnixMicro() { // not at the end of the range
				msgs[i].Time = t
			}
		}
	}
	return msgs
}

func (x *Exec) options(o OptSpec) klevdb.Options {
	opts := klevdb.Options{
		Readonly: o.RO, KeyIndex: x.h.Keys, TimeIndex: x.h.Times, AutoSync: o.AutoSync,
		Rollover: o.Rollover, Check: o.Check, Recover: o.Recover,
	}
	switch o.NewVer {
	case 1:
		opts.Version.NewSegmentsVersion = klevdb.V1
	case 2:
		opts.Version.NewSegmentsVersion = klevdb.V2
	}
	opts.Version.KeepRewriteVersion = o.Keep
	opts.Version.EagerVersionMigrate = o.Eager
	return opts
}

func effVer(o OptSpec) int {
	if o.NewVer == 1 {
		return 1
	}
	return 2
}

// Run executes the whole history. Any panic of the code under test is recorded as an event
// with err = "Panic" (the trace spec rejects it).
func (x *Exec) Run() {
	x.emit("reset", map[string]any{"keys": x.h.Keys, "times": x.h.Times, "mono": x.h.Mono})
	done := make(chan struct{})
	go func() {
		defer close(done)
		for i := range x.h.Ops {
			if x.dead {
				break
			}
			x.opi = i
			x.step(&x.h.Ops[i])
		}
		if x.l != nil && !x.dead {
			x.l.Close()
			x.l = nil
		}
	}()
	// a sequential call that never returns: no event and no step for 120 s (a long history on a loaded machine
	// keeps making progress); the goroutine is abandoned (it is blocked)
	last, idle := x.progress.Load(), 0
	for {
		select {
		case <-done:
			return
		case <-time.After(time.Second):
		}
		if p := x.progress.Load(); p != last {
			last, idle = p, 0
			continue
		}
		if idle++; idle >= 120 {
			x.dead = true
			seqHangs.Add(1)
			x.emit("hang", map[string]any{"what": "call did not return within 120s"})
			return
		}
	}
}

// seqHangs: histories that ended in a call that never returned (each is recorded and rejected by the trace spec).
var seqHangs atomic.Int64

func (x *Exec) step(op *Op) {
	defer func() {
		if r := recover(); r != nil {
			x.dead = true
			x.emit("panic", map[string]any{"op": op.Op, "what": fmt.Sprint(r)})
			if os.Getenv("VERIF_DEBUG") != "" {
				fmt.Fprintf(os.Stderr, "PANIC in history %d op %d (%s): %v\n%s\n", x.h.ID, x.opi, op.Op, r, debug.Stack())
			}
		}
	}()
	x.nOps++
	x.progress.Add(1)
	switch op.Op {
	case "open":
		if x.l != nil {
			return
		}
		before := x.layout()
		x.cur = *op.O
		x.opts = x.options(*op.O)
		l, err := klevdb.Open(x.dir, x.opts)
		mode := "rw"
		if op.O.RO {
			mode = "ro"
		}
		x.emit("open", map[string]any{"mode": mode, "err": errClass(err), "errs": errStr(err), "newver": effVer(*op.O),
			"keep": op.O.Keep, "eager": op.O.Eager, "j": x.obs.JudgeOpen})
		if err != nil {
			return
		}
		x.l = l
		if x.obs.Layout && !op.O.RO {
			x.emitVersions("open", before, 0)
		}
		if op.O.CB > 0 {
			x.backup(&Op{Op: "backup", Var: 2 | (op.O.CB - 1), Arg: 1})
		}
		x.observe()
	case "close":
		if x.l == nil {
			return
		}
		err := x.l.Close()
		x.l = nil
		x.emit("close", map[string]any{"err": errClass(err), "errs": errStr(err), "j": x.obs.JudgeOpen})
		if x.obs.Stat { // the package-level Stat of the closed directory
			st, serr := klevdb.Stat(x.dir, klevdb.Options{KeyIndex: x.h.Keys, TimeIndex: x.h.Times})
			ns, sz := fsTotals(x.dir)
			x.emit("stat", map[string]any{"messages": st.Messages, "segments": st.Segments, "size": st.Size,
				"fsSegments": ns, "fsBytes": sz, "err": errClass(serr), "errs": errStr(serr), "closed": true})
		}
		if x.obs.JudgeLayout {
			x.emitLayout(true)
		}
	case "publish":
		if x.l == nil {
			return
		}
		before := x.layoutIf()
		msgs := x.build(op.Batch)
		nsegs0, bytes0 := fsTotals(x.dir)
		hv0 := headVersion(x.dir)
		next, err := x.l.Publish(msgs)
		in := make([]MM, len(msgs))
		assigned := make([]int64, len(msgs))
		for i, m := range msgs {
			assigned[i] = m.Offset
			in[i] = MM{-9, keyName(m.Key), x.valID(m.Value), x.relT(m.Time), len(m.Key), len(m.Value)}
			if !x.anyT || in[i].T < x.minT {
				x.minT = in[i].T
			}
			if !x.anyT || in[i].T > x.maxT {
				x.maxT = in[i].T
			}
			x.anyT = true
		}
		x.emit("publish", map[string]any{"batch": in, "next": next, "assigned": assigned, "err": errClass(err),
			"errs": errStr(err), "j": x.obs.JudgePublish})
		if x.obs.Size && err == nil {
			sum := int64(0)
			for i, m := range msgs {
				sz := x.l.Size(m)
				sum += sz
				x.emit("size", map[string]any{"msg": in[i], "size": sz})
			}
			// Size(m) = the bytes a message adds to a segment (same format version, no rollover)
			nsegs1, bytes1 := fsTotals(x.dir)
			x.emit("grow", map[string]any{"delta": bytes1 - bytes0, "sum": sum, "rolled": nsegs1 != nsegs0, "samever": hv0 == effVer(x.cur)})
		}
		if x.obs.Layout && !x.cur.RO {
			x.emitVersions("publish", before, 0)
		}
		x.observe()
	case "delete":
		if x.l == nil {
			return
		}
		before := x.layoutIf()
		set := map[int64]struct{}{}
		for _, o := range op.S {
			set[o] = struct{}{}
		}
		sv := segVersions(x.dir)
		var del []klevdb.Message
		var sz int64
		var err error
		stopped := false
		if op.Multi && op.Var > 0 {
			// the caller's backoff gives up at its op.Var-th call: what was deleted until then must be reported
			n := 0
			del, sz, err = klevdb.DeleteMulti(context.Background(), x.l, set, func(context.Context) error {
				if n++; n >= op.Var {
					return errStopBackoff
				}
				return nil
			})
			stopped = errors.Is(err, errStopBackoff)
		} else if op.Multi {
			del, sz, err = klevdb.DeleteMulti(context.Background(), x.l, set, noBackoff)
		} else {
			del, sz, err = x.l.Delete(set)
		}
		vers := make([]int, len(del))
		for i, m := range del {
			vers[i] = sv.verOf(m.Offset)
		}
		S := op.S
		if S == nil {
			S = []int64{}
		}
		ec := errClass(err)
		if stopped {
			ec = "Stopped"
		}
		x.emit("delete", map[string]any{"S": S, "deleted": x.conv(del), "size": sz, "err": ec, "errs": errStr(err),
			"vers": vers, "multi": op.Multi, "j": x.obs.JudgeDelete})
		if x.obs.Layout && !x.cur.RO {
			x.emitVersions("delete", before, 0)
		}
		x.observe()
	case "gc":
		if x.l == nil {
			return
		}
		err := x.l.GC(time.Duration(op.Arg))
		x.emit("gc", map[string]any{"err": errClass(err), "errs": errStr(err)})
		x.observe()
	case "sync":
		if x.l == nil {
			return
		}
		n, err := x.l.Sync()
		x.emit("sync", map[string]any{"next": n, "err": errClass(err), "errs": errStr(err)})
	case "rmindex":
		if x.l != nil {
			return
		}
		x.rmIndex(op.Segs)
	case "backup":
		if x.l == nil {
			if op.Var%2 == 1 {
				x.backupClosed(op)
			}
			return
		}
		x.backup(op)
	case "synth":
		if x.l != nil {
			return
		}
		x.synth(op)
	case "ixprobe":
		if x.l != nil {
			return
		}
		x.ixProbe(op)
	case "trim":
		if x.l == nil || x.cur.RO {
			return
		}
		x.trim(op)
		x.observe()
	case "compact":
		if x.l == nil || x.cur.RO {
			return
		}
		x.compact(op)
		x.observe()
	case "migrate":
		if x.l != nil {
			return
		}
		before := x.layout()
		v := klevdb.V2
		if op.Arg == 1 {
			v = klevdb.V1
		}
		err := klevdb.Migrate(x.dir, klevdb.Options{KeyIndex: x.h.Keys, TimeIndex: x.h.Times}, v)
		x.emit("migrate", map[string]any{"target": op.Arg, "err": errClass(err), "errs": errStr(err)})
		if x.obs.Layout {
			x.emitVersions("migrate", before, int(op.Arg))
		}
	default:
		panic("unknown op " + op.Op)
	}
}

func errStr(err error) string {
	if err == nil {
		return ""
	}
	return err.Error()
}

func noBackoff(context.Context) error { return nil }

var errStopBackoff = errors.New("verif: the caller's backoff gives up")

// ---------------------------------------------------------------------------
// observations

func (x *Exec) observe() {
	if x.l == nil {
		return
	}
	if x.h.FinalObs {
		// only after the last operation that leaves the log open
		for j := x.opi + 1; j < len(x.h.Ops); j++ {
			if x.h.Ops[j].Op != "close" {
				return
			}
		}
	}
	if x.obs.Stat { // first of all: index files that are missing are still missing (every query rebuilds what it touches)
		st, err := x.l.Stat()
		ns, sz := fsTotals(x.dir)
		x.emit("stat", map[string]any{"messages": st.Messages, "segments": st.Segments, "size": st.Size,
			"fsSegments": ns, "fsBytes": sz, "err": errClass(err), "errs": errStr(err), "first": true})
	}
	next, nerr := x.l.NextOffset()
	if x.obs.Next {
		x.emit("nextoffset", map[string]any{"next": next, "err": errClass(nerr)})
	}
	if x.obs.Scan {
		x.scan()
	}
	offs := x.sweepOffsets(next)
	if x.obs.Consume {
		for _, off := range offs {
			for _, max := range x.obs.Maxes {
				n, ms, err := x.l.Consume(off, max)
				x.emit("consume", map[string]any{"off": off, "max": max, "next": n, "msgs": x.conv(ms), "err": errClass(err)})
			}
		}
	}
	if x.obs.Get {
		for _, off := range offs {
			if off < -2 {
				continue
			}
			m, err := x.l.Get(off)
			x.emit("get", map[string]any{"off": off, "msgs": x.one(m, err), "err": errClass(err)})
		}
	}
	if x.obs.Key {
		for _, k := range x.obs.KeyQ {
			kb := keyBytes[k]
			m, err := x.l.GetByKey(kb)
			x.emit("getbykey", map[string]any{"key": k, "msgs": x.one(m, err), "err": errClass(err)})
			o, err := x.l.OffsetByKey(kb)
			x.emit("offsetbykey", map[string]any{"key": k, "off": o, "err": errClass(err)})
			for _, off := range offs {
				if off < -2 {
					continue
				}
				for _, max := range x.obs.Maxes {
					n, ms, err := x.l.ConsumeByKey(kb, off, max)
					x.emit("consumebykey", map[string]any{"key": k, "off": off, "max": max, "next": n, "msgs": x.conv(ms), "err": errClass(err)})
				}
			}
		}
	}
	if x.obs.Time {
		lo, hi := int64(-2), int64(2)
		if x.anyT {
			lo, hi = x.minT-2, x.maxT+2
		}
		for t := lo; t <= hi; t++ {
			tt := time.UnixMicro(x.t0 + t)
			m, err := x.l.GetByTime(tt)
			x.emit("getbytime", map[string]any{"t": t, "msgs": x.one(m, err), "err": errClass(err)})
			o, mt, err := x.l.OffsetByTime(tt)
			rt := int64(0)
			if err == nil {
				rt = x.relT(mt)
			}
			x.emit("offsetbytime", map[string]any{"t": t, "off": o, "mt": rt, "err": errClass(err)})
		}
	}
	if x.obs.Stat {
		st, err := x.l.Stat()
		ns, sz := fsTotals(x.dir)
		x.emit("stat", map[string]any{"messages": st.Messages, "segments": st.Segments, "size": st.Size,
			"fsSegments": ns, "fsBytes": sz, "err": errClass(err), "errs": errStr(err)})
	}
	if x.obs.JudgeLayout && !x.obs.Layout {
		x.emitLayout(false)
	}
	if x.sigHook != nil {
		x.sigHook()
	}
}

func (x *Exec) sweepOffsets(next int64) []int64 {
	var offs []int64
	hi := next + 2
	if x.obs.Dense || hi <= 24 {
		for o := int64(-5); o <= hi; o++ {
			offs = append(offs, o)
		}
		return offs
	}
	// long log: all special offsets, the ends, and a stride through the middle
	for o := int64(-5); o <= 6; o++ {
		offs = append(offs, o)
	}
	stride := (hi - 12) / 12
	if stride < 1 {
		stride = 1
	}
	for o := int64(7); o < hi-5; o += stride {
		offs = append(offs, o)
	}
	for o := hi - 5; o <= hi; o++ {
		offs = append(offs, o)
	}
	return offs
}

// scan reads the log the way a consumer does: from OffsetOldest, feeding the returned offset back.
func (x *Exec) scan() {
	max := int64(3)
	if len(x.obs.Maxes) > 0 {
		max = x.obs.Maxes[(x.h.ID+x.opi)%len(x.obs.Maxes)]
	}
	all, end, err := scanLog(x.l, max)
	x.emit("scan", map[string]any{"msgs": x.conv(all), "end": end, "err": err, "max": max})
}

func scanLog(l klevdb.Log, max int64) ([]klevdb.Message, int64, string) {
	var all []klevdb.Message
	off := klevdb.OffsetOldest
	for iter := 0; ; iter++ {
		n, ms, err := l.Consume(off, max)
		if err != nil {
			return all, off, errClass(err)
		}
		all = append(all, ms...)
		if len(ms) == 0 && n == off {
			return all, off, ""
		}
		if iter > 100000 {
			return all, off, "NoProgress"
		}
		off = n
	}
}

func fsTotals(dir string) (int, int64) {
	es, _ := os.ReadDir(dir)
	n, sz := 0, int64(0)
	for _, e := range es {
		isLog := strings.HasSuffix(e.Name(), ".log")
		if isLog {
			n++
		}
		if isLog || strings.HasSuffix(e.Name(), ".index") {
			if i, err := e.Info(); err == nil {
				sz += i.Size()
			}
		}
	}
	return n, sz
}

// ---------------------------------------------------------------------------
// layout / versions

func (x *Exec) layout() []SegProj { return projectDir(x.dir, x.h.Times, x.h.Keys).Segs }

func (x *Exec) layoutIf() []SegProj {
	if x.obs.Layout {
		return x.layout()
	}
	return nil
}

func layJSON(segs []SegProj) []map[string]any {
	out := make([]map[string]any, 0, len(segs))
	for _, s := range segs {
		out = append(out, map[string]any{"base": s.Base, "ver": s.Ver, "offs": s.Offs})
	}
	return out
}

func (x *Exec) emitVersions(op string, before []SegProj, target int) {
	after := x.layout()
	// the spec's `lay` must hold the layout before the operation
	x.emit("layout", map[string]any{"segs": segsJSON(before), "stale": 0, "j": false})
	x.emit("versions", map[string]any{"after": layJSON(after), "op": op, "newver": effVer(x.cur), "keep": x.cur.Keep,
		"eager": x.cur.Eager, "target": target})
	if x.obs.JudgeLayout {
		x.emitLayout(false) // the files after the operation: parse, re-encode, index = derived
	}
}

func (x *Exec) emitLayout(closed bool) {
	p := projectDir(x.dir, x.h.Times, x.h.Keys)
	x.emit("layout", map[string]any{"segs": segsJSON(p.Segs), "stale": p.Stale, "closed": closed, "j": true})
}

func (x *Exec) rmIndex(which []int) {
	segs := x.layout()
	var removed []int64
	if which == nil {
		for _, s := range segs {
			if os.Remove(filepath.Join(x.dir, fmt.Sprintf("%020d.index", s.Base))) == nil {
				removed = append(removed, s.Base)
			}
		}
	} else if len(segs) > 0 {
		for _, i := range which {
			s := segs[((i%len(segs))+len(segs))%len(segs)]
			if os.Remove(filepath.Join(x.dir, fmt.Sprintf("%020d.index", s.Base))) == nil {
				removed = append(removed, s.Base)
			}
		}
	}
	if removed == nil {
		removed = []int64{}
	}
	x.emit("rmindex", map[string]any{"bases": removed})
}

// ---------------------------------------------------------------------------
// trim / compact helpers

func sortedOffsets(m map[int64]struct{}) []int64 {
	out := make([]int64, 0, len(m))
	for o := range m {
		out = append(out, o)
	}
	sort.Slice(out, func(i, j int) bool { return out[i] < out[j] })
	return out
}

func msgOffsets(ms []klevdb.Message) []int64 {
	out := make([]int64, 0, len(ms))
	for _, m := range ms {
		out = append(out, m.Offset)
	}
	return out
}

func (x *Exec) trim(op *Op) {
	ctx := context.Background()
	var R map[int64]struct{}
	var err error
	st, _ := x.l.Stat()
	arg := op.Arg
	if op.Kind == "size" && op.Arg2 > 0 {
		// boundary bound: Stat().Size minus the estimated size of the first Arg2-1 live messages, plus Arg
		arg = st.Size + op.Arg
		left := op.Arg2 - 1
		for off := klevdb.OffsetOldest; left > 0; {
			nx, ms, cerr := x.l.Consume(off, 32)
			if cerr != nil || (len(ms) == 0 && nx == off) {
				break
			}
			off = nx
			for _, m := range ms {
				if left == 0 {
					break
				}
				arg -= x.l.Size(m)
				left--
			}
		}
	}
	switch op.Kind {
	case "offset":
		R, err = klevdb.FindByOffset(ctx, x.l, arg)
	case "count":
		R, err = klevdb.FindByCount(ctx, x.l, int(arg))
	case "size":
		R, err = klevdb.FindBySize(ctx, x.l, arg)
	case "age":
		R, err = klevdb.FindByAge(ctx, x.l, time.UnixMicro(x.t0+arg))
	}
	x.emit("find", map[string]any{"kind": op.Kind, "arg": arg, "R": sortedOffsets(R), "statSize": st.Size, "err": errClass(err), "errs": errStr(err), "j": x.obs.JudgeTrim})
	if err != nil {
		return
	}
	var D []int64
	var sz int64
	multi := true
	switch op.Var % 3 {
	case 0: // ...Multi
		var del []klevdb.Message
		switch op.Kind {
		case "offset":
			del, sz, err = klevdb.TrimByOffsetMulti(ctx, x.l, arg, noBackoff)
		case "count":
			del, sz, err = klevdb.TrimByCountMulti(ctx, x.l, int(arg), noBackoff)
		case "size":
			del, sz, err = klevdb.TrimBySizeMulti(ctx, x.l, arg, noBackoff)
		case "age":
			del, sz, err = klevdb.TrimByAgeMulti(ctx, x.l, time.UnixMicro(x.t0+arg), noBackoff)
		}
		D = msgOffsets(del)
	case 1: // ...MultiOffsets
		var del map[int64]struct{}
		switch op.Kind {
		case "offset":
			del, sz, err = klevdb.TrimByOffsetMultiOffsets(ctx, x.l, arg, noBackoff)
		case "count":
			del, sz, err = klevdb.TrimByCountMultiOffsets(ctx, x.l, int(arg), noBackoff)
		case "size":
			var dm []klevdb.Message
			dm, sz, err = klevdb.TrimBySizeMultiOffsets(ctx, x.l, arg, noBackoff)
			del = map[int64]struct{}{}
			for _, m := range dm {
				del[m.Offset] = struct{}{}
			}
		case "age":
			del, sz, err = klevdb.TrimByAgeMultiOffsets(ctx, x.l, time.UnixMicro(x.t0+arg), noBackoff)
		}
		D = sortedOffsets(del)
	case 2: // single-pass variant: one Delete call, one segment
		multi = false
		var del []klevdb.Message
		switch op.Kind {
		case "offset":
			del, sz, err = klevdb.TrimByOffset(ctx, x.l, arg)
		case "count":
			del, sz, err = klevdb.TrimByCount(ctx, x.l, int(arg))
		case "size":
			del, sz, err = klevdb.TrimBySize(ctx, x.l, arg)
		case "age":
			del, sz, err = klevdb.TrimByAge(ctx, x.l, time.UnixMicro(x.t0+arg))
		}
		D = msgOffsets(del)
	}
	if D == nil {
		D = []int64{}
	}
	x.emit("trim", map[string]any{"kind": op.Kind, "arg": arg, "D": D, "size": sz, "multi": multi, "err": errClass(err), "errs": errStr(err), "j": x.obs.JudgeTrim})
	if x.obs.JudgeTrim && op.Kind == "size" && multi && err == nil {
		st2, _ := x.l.Stat()
		x.emit("sizebound", map[string]any{"statSize": st2.Size, "arg": arg})
	}
}

func (x *Exec) compact(op *Op) {
	ctx := context.Background()
	cutoff := time.UnixMicro(x.t0 + op.Arg)
	var D []int64
	var err error
	multi := true
	judge := true
	kind := op.Kind
	switch op.Kind {
	case "updates":
		switch op.Var % 3 {
		case 0:
			var del []klevdb.Message
			del, _, err = klevdb.CompactUpdatesMulti(ctx, x.l, cutoff, noBackoff)
			D = msgOffsets(del)
		case 1:
			var del map[int64]struct{}
			del, _, err = klevdb.CompactUpdatesMultiOffsets(ctx, x.l, cutoff, noBackoff)
			D = sortedOffsets(del)
		case 2:
			var del []klevdb.Message
			del, _, err = klevdb.CompactUpdates(ctx, x.l, cutoff)
			D = msgOffsets(del)
			multi = false
		}
	case "deletes":
		switch op.Var % 3 {
		case 0:
			var del []klevdb.Message
			del, _, err = klevdb.CompactDeletesMulti(ctx, x.l, cutoff, noBackoff)
			D = msgOffsets(del)
		case 1:
			var del map[int64]struct{}
			del, _, err = klevdb.CompactDeletesMultiOffsets(ctx, x.l, cutoff, noBackoff)
			D = sortedOffsets(del)
		case 2:
			var del []klevdb.Message
			del, _, err = klevdb.CompactDeletes(ctx, x.l, cutoff)
			D = msgOffsets(del)
			multi = false
		}
	case "both":
		// klevdb.Compact computes its cut-offs from time.Now(): age is chosen so that
		// now-age falls at T0+Arg and now-2*age at T0+Arg2 up to the elapsed run time;
		// the generator keeps message times >= 50ms away from both.
		before, _, _ := scanLog(x.l, 32)
		t1 := time.Now()
		age := t1.Sub(time.UnixMicro(x.t0 + op.Arg))
		err = klevdb.Compact(ctx, x.l, age, noBackoff)
		t2 := time.Now()
		// Compact reads the clock twice somewhere in [t1, t2]: judge only if no message time lies
		// inside the two windows in which its cut-offs may have fallen
		c1lo, c1hi := x.relT(t1.Add(-age)), x.relT(t2.Add(-age))
		c2lo, c2hi := x.relT(t1.Add(-2*age)), x.relT(t2.Add(-2*age))
		for _, m := range before {
			if t := x.relT(m.Time); (t >= c1lo-1 && t <= c1hi+1) || (t >= c2lo-1 && t <= c2hi+1) {
				judge = false
			}
		}
		op.Arg, op.Arg2 = c1hi, c2hi
		after, _, _ := scanLog(x.l, 32)
		left := map[int64]struct{}{}
		for _, m := range after {
			left[m.Offset] = struct{}{}
		}
		for _, m := range before {
			if _, ok := left[m.Offset]; !ok {
				D = append(D, m.Offset)
			}
		}
	}
	if D == nil {
		D = []int64{}
	}
	x.emit("compact", map[string]any{"kind": kind, "cutoff": op.Arg, "cutoff2": op.Arg2, "D": D, "multi": multi,
		"err": errClass(err), "errs": errStr(err), "j": x.obs.JudgeCompact && judge})
}
