package main

import (
	"encoding/binary"
	"encoding/json"
	"fmt"
	"math/rand"
	"os"
	"os/exec"
	"path/filepath"
	"runtime"
	"runtime/debug"
	"strconv"
	"strings"
	"sync"
	"time"

	"github.com/klev-dev/klevdb"

	"verif/refcodec"
)

// C14: reads of damaged V2 logs. Cases run in single-threaded child processes so that the allocation
// of each call can be measured (runtime.MemStats.TotalAlloc) and a fatal fault of the code under test
// kills only the child (the parent records it as a crash of that case).

type dmgCase struct {
	ID   int
	Seg  int    // which segment's log file
	Kind string // flip | overwrite | truncate | zerotail
	Pos  int
	Len  int
	Bit  uint
	Fill []byte
	Mode string // reopen | live-cold | live-warm
	What string
}

type dquery struct {
	Q    string
	Off  int64
	Max  int64
	Key  string
	T    int64
	Name string
}

type dresult struct {
	Err  string `json:"err"`
	Next int64  `json:"next"`
	Msgs []MM   `json:"msgs"`
}

type c14base struct {
	dir      string
	opts     klevdb.Options
	segs     []SegProj
	files    [][]byte // pristine log bytes per segment
	total    int64
	queries  []dquery
	expected []dresult
	reads    [][]int // per query: segments whose log file the call reads
	t0       int64
	x        *Exec
	all      []MM // every message of the pristine log
}

var c14Keys = []string{"a", "b", "g", "h", "n"}

func buildC14Base(root string, seed int64) (*c14base, error) {
	rng := rand.New(rand.NewSource(seed*31 + 7))
	b := &c14base{dir: filepath.Join(root, "pristine"), t0: 1700000000000000}
	os.RemoveAll(b.dir)
	os.MkdirAll(b.dir, 0o700)
	b.opts = klevdb.Options{KeyIndex: true, TimeIndex: true, Rollover: 230}
	b.x = NewExec(&History{ID: 0, Keys: true, Times: true, Mono: true}, b.dir, nil, Obs{})
	b.x.t0 = b.t0
	l, err := klevdb.Open(b.dir, b.opts)
	if err != nil {
		return nil, err
	}
	t := int64(100)
	for i := 0; i < 12; i++ {
		if i != 3 && i != 4 { // equal times straddling segments
			t += int64(1 + rng.Intn(2))
		}
		// record shapes: key + value, no key and no value (2, 9), key only (5), value only (6)
		k := keyBytes[c14Keys[(i/2)%4]] // pairs of equal keys: the same key twice in one segment (and colliding keys a / b)
		v := valueBytes(i+1, 20+rng.Intn(30))
		switch i {
		case 2, 9:
			k, v = nil, nil
		case 5:
			v = nil
		case 6:
			k = nil
		}
		if v != nil {
			b.x.vals[string(v)] = len(b.x.vals) + 1
		}
		m := klevdb.Message{Key: k, Value: v, Time: time.UnixMicro(b.t0 + t).UTC()}
		if _, err := l.Publish([]klevdb.Message{m}); err != nil {
			return nil, err
		}
	}
	if _, _, err := l.Delete(map[int64]struct{}{1: {}}); err != nil {
		return nil, err
	}
	if err := l.Close(); err != nil {
		return nil, err
	}
	b.segs = projectDir(b.dir, true, true).Segs
	if len(b.segs) < 3 {
		return nil, fmt.Errorf("C14 base log has %d segments, want >= 3", len(b.segs))
	}
	for _, s := range b.segs {
		if s.Ver != 2 || !s.Parsed || !s.IxPresent {
			return nil, fmt.Errorf("C14 base: unexpected pristine segment %+v", s.Base)
		}
		by, _ := os.ReadFile(filepath.Join(b.dir, fmt.Sprintf("%020d.log", s.Base)))
		b.files = append(b.files, by)
		b.total += s.LogSize + s.IxSize
	}
	next := b.segs[len(b.segs)-1].Offs[len(b.segs[len(b.segs)-1].Offs)-1] + 1
	for off := int64(-2); off <= next+1; off++ {
		for _, max := range []int64{1, 10} {
			b.queries = append(b.queries, dquery{Q: "consume", Off: off, Max: max, Name: fmt.Sprintf("Consume(%d,%d)", off, max)})
		}
		b.queries = append(b.queries, dquery{Q: "get", Off: off, Name: fmt.Sprintf("Get(%d)", off)})
	}
	for _, k := range c14Keys {
		b.queries = append(b.queries, dquery{Q: "getbykey", Key: k, Name: "GetByKey(" + k + ")"})
		for _, off := range []int64{-2, 0, 3, 5} {
			b.queries = append(b.queries, dquery{Q: "consumebykey", Key: k, Off: off, Max: 10, Name: fmt.Sprintf("ConsumeByKey(%s,%d)", k, off)})
		}
	}
	for tt := int64(99); tt <= t+1; tt++ {
		b.queries = append(b.queries, dquery{Q: "getbytime", T: tt, Name: fmt.Sprintf("GetByTime(%d)", tt)})
	}
	// expected answers and the files each call reads, from the pristine log
	l, err = klevdb.Open(b.dir, b.opts)
	if err != nil {
		return nil, err
	}
	for _, q := range b.queries {
		r, _ := b.run(l, q)
		b.expected = append(b.expected, r)
		b.reads = append(b.reads, b.filesRead(q, r))
	}
	allm, _, _ := scanLog(l, 32)
	b.all = b.x.conv(allm)
	l.Close()
	return b, nil
}

func (b *c14base) segOf(off int64) int {
	for i, s := range b.segs {
		for _, o := range s.Offs {
			if o == off {
				return i
			}
		}
	}
	return -1
}

// filesRead: the segment log files a call reads on the pristine log (from the documented access pattern:
// offset and time lookups read the records they return; key lookups read every record whose key hash equals
// the argument's in the segments they visit).
func (b *c14base) filesRead(q dquery, r dresult) []int {
	set := map[int]bool{}
	for _, m := range r.Msgs {
		set[b.segOf(m.Off)] = true
	}
	if q.Q == "getbykey" || q.Q == "consumebykey" {
		h := refcodec.FNV1a64(keyBytes[q.Key])
		lo, hi := 0, len(b.segs)-1
		if q.Q == "getbykey" && len(r.Msgs) > 0 {
			lo = b.segOf(r.Msgs[0].Off)
		}
		if q.Q == "consumebykey" {
			if len(r.Msgs) > 0 {
				hi = b.segOf(r.Msgs[0].Off)
			}
			lo = 0
			for i, s := range b.segs {
				if q.Off >= s.Base {
					lo = i
				}
			}
		}
		for i := lo; i <= hi; i++ {
			for _, rec := range b.segs[i].Log.Recs {
				if refcodec.FNV1a64(rec.Key) == h {
					set[i] = true
				}
			}
		}
	}
	if q.Q == "getbytime" {
		// the walk goes from the newest segment down and reads the first record of every segment whose first
		// index timestamp equals the query before it looks at the previous segment
		for i, sg := range b.segs {
			if len(sg.Index.Items) > 0 && sg.Index.Items[0].Timestamp == b.t0+q.T {
				set[i] = true
			}
		}
	}
	var out []int
	for i := range b.segs {
		if set[i] {
			out = append(out, i)
		}
	}
	return out
}

// run executes one query; it returns the result and the bytes allocated by the call.
func (b *c14base) run(l klevdb.Log, q dquery) (res dresult, alloc uint64) {
	var ms []klevdb.Message
	var one klevdb.Message
	var n int64
	var err error
	single := false
	defer func() {
		if r := recover(); r != nil {
			res = dresult{Err: "Panic", Msgs: []MM{}}
		}
	}()
	var m0, m1 runtime.MemStats
	runtime.ReadMemStats(&m0)
	switch q.Q {
	case "consume":
		n, ms, err = l.Consume(q.Off, q.Max)
	case "get":
		one, err = l.Get(q.Off)
		single = true
	case "getbykey":
		one, err = l.GetByKey(keyBytes[q.Key])
		single = true
	case "consumebykey":
		n, ms, err = l.ConsumeByKey(keyBytes[q.Key], q.Off, q.Max)
	case "getbytime":
		one, err = l.GetByTime(time.UnixMicro(b.t0 + q.T))
		single = true
	}
	runtime.ReadMemStats(&m1)
	alloc = m1.TotalAlloc - m0.TotalAlloc
	res = dresult{Err: errClass(err), Msgs: []MM{}}
	if err != nil {
		return
	}
	if single {
		res.Msgs = []MM{b.x.conv1(one)}
	} else {
		res.Next = n
		res.Msgs = b.x.conv(ms)
	}
	return
}

func (b *c14base) cases(tier string, seed int64) []dmgCase {
	rng := rand.New(rand.NewSource(seed*17 + 3))
	thorough := tier == "thorough"
	var cs []dmgCase
	add := func(c dmgCase) {
		c.ID = len(cs)
		cs = append(cs, c)
	}
	modes := []string{"reopen", "live-cold", "live-warm"}
	for si, f := range b.files {
		n := len(f)
		// one record of which every bit is flipped (quick); everything (thorough)
		// (quick: the middle record and the shortest record of the segment)
		var full, short refcodec.Rec
		if len(b.segs[si].Log.Recs) > 0 {
			full = b.segs[si].Log.Recs[len(b.segs[si].Log.Recs)/2]
			short = full
			for _, rc := range b.segs[si].Log.Recs {
				if rc.Len < short.Len {
					short = rc
				}
			}
		}
		for pos := 0; pos < n; pos++ {
			inFull := (int64(pos) >= full.Pos && int64(pos) < full.Pos+full.Len) || (int64(pos) >= short.Pos && int64(pos) < short.Pos+short.Len)
			for bit := uint(0); bit < 8; bit++ {
				if !thorough && !inFull && (pos*8+int(bit))%5 != int(seed%5) {
					continue
				}
				mode := modes[(pos+int(bit))%3]
				if thorough || inFull {
					mode = "reopen"
				}
				add(dmgCase{Seg: si, Kind: "flip", Pos: pos, Bit: bit, Mode: mode, What: fmt.Sprintf("flip bit %d of byte %d of segment %d", bit, pos, si)})
				if thorough && (pos+int(bit))%4 == 0 {
					add(dmgCase{Seg: si, Kind: "flip", Pos: pos, Bit: bit, Mode: modes[1+(pos+int(bit))%2], What: fmt.Sprintf("flip bit %d of byte %d of segment %d", bit, pos, si)})
				}
			}
			// 1-8 byte overwrites
			for ln := 1; ln <= 8 && pos+ln <= n; ln++ {
				if !thorough && (pos+ln)%4 != int(seed%4) {
					continue
				}
				fill := make([]byte, ln)
				switch rng.Intn(3) {
				case 0:
					rng.Read(fill)
				case 1:
					for i := range fill {
						fill[i] = 0xFF
					}
				}
				add(dmgCase{Seg: si, Kind: "overwrite", Pos: pos, Len: ln, Fill: fill, Mode: modes[(pos+ln)%3],
					What: fmt.Sprintf("overwrite %d bytes at %d of segment %d with %x", ln, pos, si, fill)})
			}
		}
		// field-aware overwrites (after seeded change S129): both length fields of a V2 record (bytes 20..27) replaced by
		// values that are plausible one by one and extreme together - sums that overflow int32, that hit the 64 MiB
		// guard exactly, negative values, the two lengths exchanged
		lenPairs := [][2]uint32{{0x40000000, 0x40000000}, {0x7FFFFFFF, 0x41}, {0x7FFFFFFF, 0x7FFFFFFF}, {0x7FFFFFFF, 1}, {1, 0x7FFFFFFF},
			{0x80000000, 0x10}, {0xFFFFFFFF, 1}, {0, 0x7FFFFFFF}, {1 << 26, 1 << 26}, {1 << 25, 1 << 25}, {0x60000000, 0x60000000}, {0x7FFFFFF0, 0x7FFFFFF0}}
		for ri, rc := range b.segs[si].Log.Recs {
			if !thorough && ri%2 != int(seed%2) && rc.Pos != full.Pos && rc.Pos != short.Pos {
				continue
			}
			at := int(rc.Pos) + 20
			if at+8 > n {
				continue
			}
			pairs := append([][2]uint32{}, lenPairs...)
			kl, vl := binary.BigEndian.Uint32(f[at:]), binary.BigEndian.Uint32(f[at+4:])
			pairs = append(pairs, [2]uint32{vl, kl}, [2]uint32{kl + 1, vl - 1}, [2]uint32{kl + 0x80000000, vl + 0x80000000})
			for pi, p := range pairs {
				fill := make([]byte, 8)
				binary.BigEndian.PutUint32(fill, p[0])
				binary.BigEndian.PutUint32(fill[4:], p[1])
				add(dmgCase{Seg: si, Kind: "overwrite", Pos: at, Len: 8, Fill: fill, Mode: modes[(ri+pi)%3],
					What: fmt.Sprintf("overwrite both length fields of the record at %d of segment %d with %x", rc.Pos, si, fill)})
			}
		}
		for cut := 0; cut < n; cut++ {
			if !thorough && cut%2 != int(seed%2) {
				continue
			}
			add(dmgCase{Seg: si, Kind: "truncate", Pos: cut, Mode: "reopen", What: fmt.Sprintf("truncate segment %d to %d", si, cut)})
			add(dmgCase{Seg: si, Kind: "zerotail", Pos: cut, Mode: modes[cut%3], What: fmt.Sprintf("zero-fill segment %d from %d", si, cut)})
		}
	}
	return cs
}

// damaged returns the damaged bytes of the file and the offsets of the records they touch.
func (b *c14base) apply(c dmgCase) ([]byte, map[int64]bool, bool) {
	f := clone(b.files[c.Seg])
	lo, hi := c.Pos, c.Pos+1
	switch c.Kind {
	case "flip":
		f[c.Pos] ^= 1 << c.Bit
	case "overwrite":
		copy(f[c.Pos:], c.Fill)
		hi = c.Pos + c.Len
	case "truncate":
		f = f[:c.Pos]
		hi = len(b.files[c.Seg])
	case "zerotail":
		for i := c.Pos; i < len(f); i++ {
			f[i] = 0
		}
		hi = len(f)
	}
	changed := len(f) != len(b.files[c.Seg])
	for i := range f {
		if f[i] != b.files[c.Seg][i] {
			changed = true
		}
	}
	// a record is damaged if one of ITS bytes differs from the pristine file (or is cut off): an overwrite whose
	// fill happens to repeat the original bytes of a neighbouring record leaves that record intact
	dm := map[int64]bool{}
	orig := b.files[c.Seg]
	for _, r := range b.segs[c.Seg].Log.Recs {
		if int64(lo) >= r.Pos+r.Len || int64(hi) <= r.Pos {
			continue
		}
		for i := r.Pos; i < r.Pos+r.Len; i++ {
			if i >= int64(len(f)) || f[i] != orig[i] {
				dm[r.Offset] = true
				break
			}
		}
	}
	return f, dm, changed
}

func (b *c14base) runCase(c dmgCase, work string, tw *TraceWriter) {
	os.RemoveAll(work)
	if err := copyDir(b.dir, work); err != nil {
		panic(err)
	}
	defer os.RemoveAll(work)
	path := filepath.Join(work, fmt.Sprintf("%020d.log", b.segs[c.Seg].Base))
	f, dm, changed := b.apply(c)
	if !changed {
		dm = map[int64]bool{}
	}
	headDamaged := c.Seg == len(b.segs)-1 && (c.Pos < 8 || (c.Kind == "truncate" && c.Pos < 8))
	emit := func(ev string, m map[string]any) {
		m["ev"], m["hid"], m["what"], m["mode"] = ev, c.ID, c.What, c.Mode
		tw.Emit(m)
	}
	var l klevdb.Log
	var err error
	write := func() {
		if c.Kind == "truncate" {
			os.Truncate(path, int64(c.Pos))
			return
		}
		// in place: the same file (inode), as an overwrite after the fact would be
		fh, e := os.OpenFile(path, os.O_WRONLY, 0)
		if e != nil {
			panic(e)
		}
		fh.WriteAt(f, 0)
		fh.Close()
	}
	if c.Mode == "reopen" {
		write()
		l, err = klevdb.Open(work, b.opts)
	} else {
		l, err = klevdb.Open(work, b.opts)
		if err == nil && c.Mode == "live-warm" {
			for _, s := range b.segs {
				l.Get(s.Base)
			}
		}
		write()
	}
	emit("dopen", map[string]any{"err": errClass(err), "errs": errStr(err), "headDamaged": headDamaged})
	if err != nil {
		return
	}
	for qi, q := range b.queries {
		r, alloc := b.run(l, q)
		touches := false
		for _, m := range b.expected[qi].Msgs {
			if dm[m.Off] {
				touches = true
			}
		}
		other := changed
		for _, s := range b.reads[qi] {
			if s == c.Seg {
				other = false
			}
		}
		if !changed {
			other, touches = true, false
		}
		if len(b.reads[qi]) == 0 && q.Q != "consume" && q.Q != "get" {
			other = false // key/time calls that found nothing: conservative
		}
		if b.expected[qi].Err != "" || len(b.expected[qi].Msgs) == 0 {
			// answers without data (errors, caught-up cursors) come from indexes / segment selection: only the
			// general rule (never wrong data, no panic) is asserted
			other = false
		}
		if c.Kind == "truncate" {
			// a file cut short: no call returns a message that differs from the published one, none panics
			emit("dtrunc", map[string]any{"q": q.Name, "all": b.all, "r": r, "alloc": int64(alloc), "fileBytes": b.total})
			continue
		}
		emit("dread", map[string]any{"q": q.Name, "expected": b.expected[qi], "r": r, "touches": touches, "other": other,
			"alloc": int64(alloc), "fileBytes": b.total,
			"zerohead": c.Kind == "zerotail" && c.Pos == 0 && b.segs[c.Seg].Base == 0})
	}
	func() {
		defer func() { recover() }()
		l.Close()
	}()
}

// c14Worker is the entry point of the child process.
const c14Round = 1000000

func c14Worker(args []string) int {
	shard, _ := strconv.Atoi(args[0])
	nshards, _ := strconv.Atoi(args[1])
	tier := args[2]
	seed, _ := strconv.ParseInt(args[3], 10, 64)
	out, root := args[4], args[5]
	only, round := -1, 0
	if len(args) > 6 {
		only, _ = strconv.Atoi(args[6])
	}
	if len(args) > 7 {
		round, _ = strconv.Atoi(args[7])
	}
	if only >= 0 { // a case id carries its round: every round has a base log of its own (seed + 1000 * round)
		round = only / c14Round
	}
	seed += int64(1000 * round)
	runtime.GOMAXPROCS(1)
	debug.SetPanicOnFault(true)
	b, err := buildC14Base(filepath.Join(root, fmt.Sprintf("w%d", shard)), seed)
	if err != nil {
		fmt.Fprintln(os.Stderr, "c14 base:", err)
		return 2
	}
	tw, err := NewTraceWriter(out, openKF("C14"))
	if err != nil {
		fmt.Fprintln(os.Stderr, err)
		return 2
	}
	prog, _ := os.Create(out + ".progress")
	cs := b.cases(tier, seed)
	for _, c := range cs {
		cid := c.ID
		c.ID += round * c14Round
		if only >= 0 && c.ID != only {
			continue
		}
		if only < 0 && cid%nshards != shard {
			continue
		}
		fmt.Fprintf(prog, "%d %s\n", c.ID, c.What)
		tw.Emit(map[string]any{"ev": "reset", "hid": c.ID})
		tw.w.Flush()
		b.runCase(c, filepath.Join(root, fmt.Sprintf("w%d", shard), "work"), tw)
	}
	tw.Close()
	prog.Close()
	fmt.Printf("C14-WORKER cases=%d queries=%d\n", len(cs), len(b.queries))
	return 0
}

// runC14 is the parent side (Extra of the C14 profile).
func runC14(r *SeqRun) {
	self, err := os.Executable()
	if err != nil {
		r.infra("c14: %v", err)
		return
	}
	nshards := 14
	// thorough: several base logs (other value lengths, so other record boundaries and positions), each damaged exhaustively
	for round := 0; round < tierN(r.Tier, 1, 6); round++ {
		r.runC14Round(self, nshards, round)
	}
}

func (r *SeqRun) runC14Round(self string, nshards, round int) {
	var wg sync.WaitGroup
	for s := 0; s < nshards; s++ {
		wg.Add(1)
		go func(s int) {
			defer wg.Done()
			out := filepath.Join(r.Scratch, fmt.Sprintf("trace-c14-%d-%02d.ndjson", round, s))
			cmd := exec.Command(self, "c14-worker", strconv.Itoa(s), strconv.Itoa(nshards), r.Tier, strconv.FormatInt(r.Seed, 10), out, r.Scratch, "-1", strconv.Itoa(round))
			ob, err := cmd.CombinedOutput()
			if err != nil {
				if ee, ok := err.(*exec.ExitError); ok && ee.ExitCode() == 2 && strings.Contains(string(ob), "c14 base") {
					r.infra("c14 worker %d: %s", s, tail(string(ob), 5))
					return
				}
				// the child died inside a case: a crash of the code under test
				pl, _ := readLines(out + ".progress")
				what := "unknown case"
				id := -1
				if len(pl) > 0 {
					what = pl[len(pl)-1]
					fmt.Sscanf(what, "%d", &id)
				}
				lines, _ := readLines(out)
				empty := dresult{Msgs: []MM{}}
				crash, _ := json.Marshal(map[string]any{"ev": "dread", "hid": id, "what": "CRASH of the process in case " + what, "q": "?", "expected": empty,
					"r": dresult{Err: "Panic", Msgs: []MM{}}, "touches": false, "other": false, "alloc": 0, "fileBytes": 0, "zerohead": false, "crash": tail(string(ob), 12)})
				lines = append(lines, string(crash))
				writeLines(out, lines)
			}
			lines, _ := readLines(out)
			r.mu.Lock()
			r.shards = append(r.shards, out)
			r.Events += len(lines)
			for _, ln := range lines {
				var eh evHead
				json.Unmarshal([]byte(ln), &eh)
				r.Counts[eh.Ev]++
				if eh.Ev == "reset" {
					r.NHist++
					r.Sigs[fmt.Sprintf("c14-%d", eh.Hid)] = struct{}{}
					r.dcases[eh.Hid] = true
				}
			}
			r.mu.Unlock()
		}(s)
	}
	wg.Wait()
}

// replayC14 re-runs one damage case in a child and returns its trace path.
func replayC14(r *SeqRun, id int, tier string, seed int64, dir string) (string, error) {
	self, err := os.Executable()
	if err != nil {
		return "", err
	}
	out := filepath.Join(dir, "trace.ndjson")
	cmd := exec.Command(self, "c14-worker", "0", "1", tier, strconv.FormatInt(seed, 10), out, dir, strconv.Itoa(id))
	ob, err := cmd.CombinedOutput()
	if err != nil {
		lines, _ := readLines(out)
		empty := dresult{Msgs: []MM{}}
		crash, _ := json.Marshal(map[string]any{"ev": "dread", "hid": id, "what": "CRASH", "q": "?", "expected": empty,
			"r": dresult{Err: "Panic", Msgs: []MM{}}, "touches": false, "other": false, "alloc": 0, "fileBytes": 0, "zerohead": false, "crash": tail(string(ob), 12)})
		writeLines(out, append(lines, string(crash)))
	}
	return out, nil
}
