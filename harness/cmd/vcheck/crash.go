package main

import (
	"crypto/sha256"
	"errors"
	"fmt"
	"os"
	"path/filepath"
	"regexp"
	"sort"
	"strings"
	"sync"
	"sync/atomic"
	"time"

	"github.com/klev-dev/klevdb"
	"github.com/klev-dev/klevdb/pkg/vhook"
)

// C05 / C06: crash and power-loss images from the file-system tap.

type tapEvent struct {
	Op, Path, Path2 string
	Off, N          int64
	OpIdx           int
	Snap            map[string][]byte // directory after the event (name -> content)
	Synced          map[string]int64  // fsynced length per file name after the event
}

type tapRec struct {
	mu     sync.Mutex
	dir    string
	on     bool
	opIdx  int
	events []tapEvent
	synced map[string]int64
}

var tapRuns sync.Map // directory -> *tapRec
var tapOnce sync.Once

func installTap() {
	tapOnce.Do(func() {
		vhook.FS = fsDispatch
	})
}

// fsDispatch is the one callback behind vhook.FS: the file-system tap of the crash / power-loss checks and, for C08,
// every file-system step as a pause point ("fs.<op>") of the goroutine that performs it.
func fsDispatch(op, path, path2 string, off, n int64) {
	dir := path
	if op != "dirsync" {
		dir = filepath.Dir(path)
	}
	if v, ok := tapRuns.Load(dir); ok {
		v.(*tapRec).event(op, path, path2, off, n)
	}
	if pauseInstalled.Load() { // only in processes that hold goroutines at pause points (C08, C18)
		if h, ok := pauseProcs.Load(curGoid()); ok {
			h.(pauseHandler).Arrive("fs." + op)
		}
	}
}

var pauseInstalled atomic.Bool

func snapDir(dir string) map[string][]byte {
	m := map[string][]byte{}
	es, _ := os.ReadDir(dir)
	for _, e := range es {
		if e.IsDir() || e.Name() == ".lock" {
			continue
		}
		b, err := os.ReadFile(filepath.Join(dir, e.Name()))
		if err == nil {
			m[e.Name()] = b
		}
	}
	return m
}

func (t *tapRec) event(op, path, path2 string, off, n int64) {
	t.mu.Lock()
	defer t.mu.Unlock()
	name := filepath.Base(path)
	switch op {
	case "create":
		if _, ok := t.synced[name]; !ok {
			t.synced[name] = 0
		}
	case "fsync":
		if st, err := os.Stat(path); err == nil {
			t.synced[name] = st.Size()
		}
	case "rename":
		t.synced[filepath.Base(path2)] = t.synced[name]
		delete(t.synced, name)
	case "remove":
		delete(t.synced, name)
	}
	if !t.on {
		return
	}
	sy := map[string]int64{}
	for k, v := range t.synced {
		sy[k] = v
	}
	t.events = append(t.events, tapEvent{Op: op, Path: name, Path2: filepath.Base(path2), Off: off, N: n, OpIdx: t.opIdx, Snap: snapDir(t.dir), Synced: sy})
}

func newTap(dir string, on bool) *tapRec {
	installTap()
	t := &tapRec{dir: dir, on: on, synced: map[string]int64{}}
	// files that exist already count as durable (they were produced by a completed, closed session)
	for n, b := range snapDir(dir) {
		t.synced[n] = int64(len(b))
	}
	tapRuns.Store(dir, t)
	return t
}

func (t *tapRec) stop() { tapRuns.Delete(t.dir) }

// ---------------------------------------------------------------------------

type absState struct {
	Live []MM  `json:"live"`
	Next int64 `json:"next"`
}

type crashOpInfo struct {
	Kind  string `json:"kind"`
	Batch []MM   `json:"batch"`
	Name  string `json:"name"`
}

type image struct {
	files   map[string][]byte
	opIdx   int
	what    string
	between string
	ploss   bool
	w       int64
	second  bool // C06: the recovery of this image is tapped and hit by a second power loss
}

type crashRunner struct {
	r       *SeqRun
	h       *History
	tw      *TraceWriter
	root    string
	x       *Exec
	states  []absState // state after op i (index i+1; index 0 = initial)
	acks    []int64    // acknowledged-durable offset before op i
	opts    []OptSpec  // options in force at op i
	nimg    int
	torn    string // "all" | "classes"
	depth2  bool
	ploss2  bool // C06 depth 2: the power goes a second time, inside or right after the recovery (its own fsyncs matter too)
	plossOn bool
	crashOn bool
}

func discardWriter() *TraceWriter {
	f, _ := os.OpenFile(os.DevNull, os.O_WRONLY, 0)
	tw := &TraceWriter{f: f, counts: map[string]int{}}
	tw.w = newBufWriter(f)
	return tw
}

func cloneFiles(m map[string][]byte) map[string][]byte {
	o := make(map[string][]byte, len(m))
	for k, v := range m {
		o[k] = v
	}
	return o
}

var rewriteLogRe = regexp.MustCompile(`^(\d{20})\.log\.rewrite\.`)

// run executes the history with the tap on and evaluates every image.
func (c *crashRunner) run() {
	dir := filepath.Join(c.root, fmt.Sprintf("cr-%d", c.h.ID))
	os.MkdirAll(dir, 0o700)
	defer os.RemoveAll(dir)
	tap := newTap(dir, true)
	defer tap.stop()
	c.x = NewExec(c.h, dir, discardWriter(), Obs{})
	cur := absState{Live: []MM{}}
	c.states = append(c.states, cur)
	ack := int64(0)
	for i := range c.h.Ops {
		op := &c.h.Ops[i]
		tap.mu.Lock()
		tap.opIdx = i
		tap.mu.Unlock()
		c.acks = append(c.acks, ack)
		c.x.opi = i
		c.x.step(op)
		c.opts = append(c.opts, c.x.cur)
		if c.x.dead {
			break
		}
		if c.x.l != nil {
			all, end, _ := scanLog(c.x.l, 32)
			cur = absState{Live: c.x.conv(all), Next: end}
			if n, err := c.x.l.NextOffset(); err == nil {
				cur.Next = n
			}
		}
		c.states = append(c.states, cur)
		switch {
		case op.Op == "sync", op.Op == "close", op.Op == "publish" && c.x.cur.AutoSync:
			ack = cur.Next
		}
	}
	if c.x.l != nil {
		c.x.l.Close()
		c.x.l = nil
	}
	tap.stop()
	events := tap.events
	// group events by operation
	byOp := map[int][]int{}
	for k, ev := range events {
		byOp[ev.OpIdx] = append(byOp[ev.OpIdx], k)
	}
	prevSnap := map[string][]byte{}
	prevSynced := map[string]int64{}
	lastW := int64(-1)
	for i := 0; i < len(c.states)-1 && i < len(c.h.Ops); i++ {
		ks := byOp[i]
		// the power may also go between two calls: whenever a call has acknowledged something new (Sync, Close, an
		// AutoSync Publish), the directory as that call left it is cut back to what is fsynced - before the next call
		// does anything (its first step is often the very fsync that would hide an acknowledgement given too early)
		if c.plossOn && len(prevSnap) > 0 && c.acks[i] != lastW {
			c.powerLoss(tapEvent{Op: "idle", Path: "(between two calls)", Snap: prevSnap, Synced: prevSynced}, i, -1, "")
		}
		lastW = c.acks[i]
		// KF signature: inside a rebase, after the rename of the rewritten log to a new base, before the old log is removed
		renameAt, removeAt := -1, -1
		for j, k := range ks {
			ev := events[k]
			if m := rewriteLogRe.FindStringSubmatch(ev.Path); ev.Op == "rename" && m != nil && !strings.HasPrefix(ev.Path2, m[1]) {
				renameAt = j
				old := m[1] + ".log"
				for j2 := j + 1; j2 < len(ks); j2++ {
					if events[ks[j2]].Op == "remove" && events[ks[j2]].Path == old {
						removeAt = j2
						break
					}
				}
			}
		}
		for j, k := range ks {
			ev := events[k]
			between := ""
			if renameAt >= 0 && j >= renameAt && (removeAt < 0 || j < removeAt) {
				between = "rebase-rename..remove"
			}
			if c.crashOn {
				// torn variants of an append: the file cut inside the appended range
				if ev.Op == "write" && ev.N > 1 && !(ev.Off == 0 && ev.N == 8) {
					for _, cut := range c.tornCuts(ev.Off, ev.N) {
						f := cloneFiles(ev.Snap)
						if b, ok := f[ev.Path]; ok && int64(len(b)) >= cut {
							f[ev.Path] = b[:cut]
							c.eval(image{files: f, opIdx: i, what: fmt.Sprintf("op %d (%s) step %d: %s %s torn at byte %d of [%d,%d)", i, c.h.Ops[i].Op, j, ev.Op, ev.Path, cut, ev.Off, ev.Off+ev.N), between: between})
						}
					}
				}
				c.eval(image{files: ev.Snap, opIdx: i, what: fmt.Sprintf("op %d (%s) after step %d: %s %s %s", i, c.h.Ops[i].Op, j, ev.Op, ev.Path, ev.Path2), between: between})
			}
			if c.plossOn {
				c.powerLoss(ev, i, j, between)
			}
			prevSnap, prevSynced = ev.Snap, ev.Synced
		}
	}
}

func (c *crashRunner) tornCuts(off, n int64) []int64 {
	var cuts []int64
	if c.torn == "all" {
		for x := off + 1; x < off+n; x++ {
			cuts = append(cuts, x)
		}
		return cuts
	}
	for _, d := range []int64{1, 4, 27, 28, 29, n / 2, n - 9, n - 8, n - 1} {
		if d > 0 && d < n {
			cuts = append(cuts, off+d)
		}
	}
	sort.Slice(cuts, func(i, j int) bool { return cuts[i] < cuts[j] })
	var out []int64
	for i, x := range cuts {
		if i == 0 || x != cuts[i-1] {
			out = append(out, x)
		}
	}
	return out
}

// powerLoss: each file independently cut back to a length between its fsynced length and its current length
// (8-byte file headers atomic); directory operations are durable in program order.
func (c *crashRunner) powerLoss(ev tapEvent, i, j int, between string) {
	type cutRange struct {
		name   string
		lo, hi int64
	}
	var rs []cutRange
	for name, b := range ev.Snap {
		lo := ev.Synced[name]
		if lo < int64(len(b)) {
			rs = append(rs, cutRange{name, lo, int64(len(b))})
		}
	}
	if len(rs) == 0 {
		return
	}
	sort.Slice(rs, func(a, b int) bool { return rs[a].name < rs[b].name })
	w := c.acks[i]
	mk := func(cuts map[string]int64, what string) {
		f := cloneFiles(ev.Snap)
		for n, l := range cuts {
			if l > 0 && l < 8 {
				l = 0 // headers are atomic
			}
			f[n] = f[n][:l]
		}
		c.eval(image{files: f, opIdx: i, ploss: true, w: w, between: between,
			what: fmt.Sprintf("power loss in op %d (%s) after step %d (%s %s): %s", i, c.h.Ops[i].Op, j, ev.Op, ev.Path, what)})
	}
	// everything unsynced lost
	all := map[string]int64{}
	for _, r := range rs {
		all[r.name] = r.lo
	}
	mk(all, "all files at their fsynced length")
	for _, r := range rs {
		// one file at a time: every length (thorough) or class representatives
		var ls []int64
		if c.torn == "all" {
			for l := r.lo; l < r.hi; l++ {
				ls = append(ls, l)
			}
		} else {
			ls = []int64{r.lo, r.lo + 1, r.lo + 28, r.lo + (r.hi-r.lo)/2, r.hi - 1}
		}
		seen := map[int64]bool{}
		for _, l := range ls {
			if l < r.lo || l >= r.hi || seen[l] {
				continue
			}
			seen[l] = true
			mk(map[string]int64{r.name: l}, fmt.Sprintf("%s cut to %d (fsynced %d, written %d), others complete", r.name, l, r.lo, r.hi))
			if len(rs) > 1 && l != r.lo {
				o := map[string]int64{}
				for _, r2 := range rs {
					o[r2.name] = r2.lo
				}
				o[r.name] = l
				mk(o, fmt.Sprintf("%s cut to %d, others at their fsynced length", r.name, l))
			}
		}
	}
}

func dirHash(dir string) string {
	h := sha256.New()
	m := snapDir(dir)
	var names []string
	for n := range m {
		names = append(names, n)
	}
	sort.Strings(names)
	for _, n := range names {
		fmt.Fprintf(h, "%s:%d:", n, len(m[n]))
		h.Write(m[n])
	}
	return fmt.Sprintf("%x", h.Sum(nil)[:10])
}

// observe opens the image with Recover and records what it shows.
func (c *crashRunner) observe(img image, dir string, o OptSpec, depth int, retry []int64) (map[string]any, []tapEvent) {
	os.RemoveAll(dir)
	os.MkdirAll(dir, 0o700)
	defer os.RemoveAll(dir)
	for n, b := range img.files {
		os.WriteFile(filepath.Join(dir, n), b, 0o600)
	}
	obs := map[string]any{"err": "", "live": []MM{}, "next": int64(0), "gets": []any{}, "keys": []any{}, "times": []any{}, "statMessages": 0,
		"hash1": "", "hash2": "", "appendErr": "", "appended": []MM{}, "checkAfter": "", "newmsg": MM{},
		"delErr": "", "delset": []int64{}, "deleted": []int64{}, "afterDelete": []MM{}}
	o.Recover, o.Check, o.RO, o.Eager = true, false, false, false
	o.Rollover = 1 << 30
	opts := c.x.options(o)
	var tap *tapRec
	if depth == 1 && (c.depth2 || img.second) {
		tap = newTap(dir, true)
	}
	var events []tapEvent
	fail := func(stage string, err error) (map[string]any, []tapEvent) {
		obs["err"] = stage + ": " + err.Error()
		if tap != nil {
			tap.stop()
		}
		return obs, events
	}
	var l klevdb.Log
	var err error
	func() {
		defer func() {
			if r := recover(); r != nil {
				err = fmt.Errorf("panic: %v", r)
			}
		}()
		l, err = klevdb.Open(dir, opts)
	}()
	if tap != nil {
		tap.stop()
		events = tap.events
	}
	if err != nil {
		return fail("open with Recover", err)
	}
	func() {
		defer func() {
			if r := recover(); r != nil {
				err = fmt.Errorf("panic: %v", r)
			}
		}()
		all, end, serr := scanLog(l, 32)
		if serr != "" {
			err = fmt.Errorf("scan: %s", serr)
			return
		}
		next, _ := l.NextOffset()
		_ = end
		obs["live"], obs["next"] = c.x.conv(all), next
		var gets, keys, times []any
		for off := int64(-2); off <= next+1; off++ {
			m, gerr := l.Get(off)
			gets = append(gets, map[string]any{"off": off, "err": errClass(gerr), "msgs": c.x.one(m, gerr)})
		}
		if c.h.Keys {
			seen := map[string]bool{}
			for _, m := range all {
				seen[keyName(m.Key)] = true
			}
			seen["p"] = true
			for k := range seen {
				m, kerr := l.GetByKey(keyBytes[k])
				keys = append(keys, map[string]any{"key": k, "err": errClass(kerr), "msgs": c.x.one(m, kerr)})
			}
		}
		if c.h.Times && c.h.Mono && len(all) > 0 {
			lo, hi := c.x.relT(all[0].Time)-1, c.x.relT(all[len(all)-1].Time)+1
			if hi-lo > 40 {
				hi = lo + 40
			}
			for t := lo; t <= hi; t++ {
				m, terr := l.GetByTime(time.UnixMicro(c.x.t0 + t))
				times = append(times, map[string]any{"t": t, "err": errClass(terr), "msgs": c.x.one(m, terr)})
			}
		}
		if gets != nil {
			obs["gets"] = gets
		}
		if keys != nil {
			obs["keys"] = keys
		}
		if times != nil {
			obs["times"] = times
		}
		st, sterr := l.Stat()
		if sterr != nil {
			err = fmt.Errorf("stat: %v", sterr)
			return
		}
		obs["statMessages"] = st.Messages
	}()
	if err != nil {
		l.Close()
		return fail("observe", err)
	}
	if err := l.Close(); err != nil {
		return fail("close", err)
	}
	obs["hash1"] = dirHash(dir)
	// recovering again changes nothing
	l, err = klevdb.Open(dir, opts)
	if err != nil {
		return fail("second open with Recover", err)
	}
	if err := l.Close(); err != nil {
		return fail("second close", err)
	}
	obs["hash2"] = dirHash(dir)
	// it can be appended to and still passes Check
	o2 := o
	o2.Recover = false
	l, err = klevdb.Open(dir, c.x.options(o2))
	if err != nil {
		obs["appendErr"] = "open: " + err.Error()
		return obs, events
	}
	v := valueBytes(999983, 12)
	c.x.vals[string(v)] = 999983
	nm := klevdb.Message{Key: keyBytes["g"], Value: v, Time: time.UnixMicro(c.x.t0 + 900000).UTC()}
	batch := []klevdb.Message{nm}
	if _, err := l.Publish(batch); err != nil {
		obs["appendErr"] = "publish: " + err.Error()
		l.Close()
		return obs, events
	}
	all2, _, serr := scanLog(l, 32)
	if serr != "" {
		obs["appendErr"] = "scan after append: " + serr
	}
	obs["appended"] = c.x.conv(all2)
	nmm := c.x.conv1(batch[0])
	nmm.Off = 0
	obs["newmsg"] = nmm
	if err := l.Close(); err != nil {
		obs["appendErr"] = "close after append: " + err.Error()
	}
	if cerr := klevdb.Check(dir, klevdb.Options{KeyIndex: c.h.Keys, TimeIndex: c.h.Times}); cerr != nil && (!c.h.Times || c.h.Mono) {
		obs["checkAfter"] = cerr.Error()
	}
	// ... and used further: a Delete (the interrupted one again, if it was a Delete; else the oldest message), close,
	// open with Recover: exactly the reported messages are gone. Whatever an interrupted operation leaves behind in
	// the directory (temporary files) must not leak into later operations.
	obs["afterDelete"] = obs["appended"]
	if obs["appendErr"] != "" || len(all2) == 0 {
		return obs, events
	}
	set := map[int64]struct{}{}
	delset := []int64{}
	for _, o := range retry {
		set[o] = struct{}{}
		delset = append(delset, o)
	}
	if len(set) == 0 {
		set[all2[0].Offset] = struct{}{}
		delset = append(delset, all2[0].Offset)
	}
	obs["delset"] = delset
	if l, err = klevdb.Open(dir, c.x.options(o2)); err != nil {
		obs["delErr"] = "open: " + err.Error()
		return obs, events
	}
	del, _, derr := l.Delete(set)
	if derr != nil && !errors.Is(derr, klevdb.ErrNotFound) {
		obs["delErr"] = "delete: " + derr.Error()
	}
	obs["deleted"] = msgOffsets(del)
	if err := l.Close(); err != nil {
		obs["delErr"] = "close after delete: " + err.Error()
	}
	if l, err = klevdb.Open(dir, opts); err != nil {
		obs["delErr"] = "open with Recover after delete: " + err.Error()
		return obs, events
	}
	all3, _, serr3 := scanLog(l, 32)
	if serr3 != "" {
		obs["delErr"] = "scan after delete: " + serr3
	}
	obs["afterDelete"] = c.x.conv(all3)
	l.Close()
	return obs, events
}

func (c *crashRunner) eval(img image) {
	c.nimg++
	i := img.opIdx
	S, T := c.states[i], c.states[i+1]
	op := c.h.Ops[i]
	info := crashOpInfo{Kind: "other", Batch: []MM{}, Name: op.Op}
	switch op.Op {
	case "publish":
		info.Kind = "publish"
		for _, m := range T.Live {
			if m.Off >= S.Next {
				info.Batch = append(info.Batch, m)
			}
		}
	case "delete":
		info.Kind = "delete"
	}
	dir := filepath.Join(c.root, fmt.Sprintf("img-%d", c.h.ID))
	var retry []int64
	if op.Op == "delete" {
		retry = op.S
		for _, o := range op.S {
			if o < 0 { // a set with a relative offset is rejected as a whole: nothing to retry
				retry = nil
			}
		}
	}
	// (thorough cuts every file at every length: the second power loss is applied to every fifth image there)
	img.second = c.ploss2 && img.ploss && (c.torn != "all" || c.nimg%5 == 0)
	obs, events := c.observe(img, dir, c.opts[i], 1, retry)
	c.emit(img, S, T, info, obs, 1, img.what)
	// depth 2: a crash at every step of that recovery, recovered again
	if c.ploss2 && img.ploss && !img.second {
		return
	}
	if img.second {
		// second power loss: at every step of the recovery (the last one = after Open has returned, before anything is
		// synced again) every file goes back to its fsynced length; what the first image held counts as durable
		done := map[string]bool{}
		for k, ev := range events {
			f := cloneFiles(ev.Snap)
			cut, sig := false, ""
			for n, b := range f {
				lo := ev.Synced[n]
				if lo > 0 && lo < 8 {
					lo = 0
				}
				if lo < int64(len(b)) {
					f[n] = b[:lo]
					cut = true
				}
				sig += fmt.Sprintf("%s:%d;", n, len(f[n]))
			}
			if !cut || done[sig] {
				continue
			}
			done[sig] = true
			img2 := image{files: f, opIdx: i, between: img.between, ploss: true, w: img.w}
			obs2, _ := c.observe(img2, dir, c.opts[i], 2, retry)
			c.emit(img2, S, T, info, obs2, 2, fmt.Sprintf("%s; then a second power loss inside the recovery after its step %d (%s %s %s): all files at their fsynced length", img.what, k, ev.Op, ev.Path, ev.Path2))
			c.nimg++
		}
		return
	}
	for k, ev := range events {
		img2 := image{files: ev.Snap, opIdx: i, between: img.between, ploss: img.ploss, w: img.w}
		obs2, _ := c.observe(img2, dir, c.opts[i], 2, retry)
		c.emit(img2, S, T, info, obs2, 2, fmt.Sprintf("%s; then crash inside the recovery after its step %d (%s %s %s)", img.what, k, ev.Op, ev.Path, ev.Path2))
		c.nimg++
	}
}

func (c *crashRunner) emit(img image, S, T absState, info crashOpInfo, obs map[string]any, depth int, what string) {
	ev := "crash"
	if img.ploss {
		ev = "ploss"
	}
	c.tw.Emit(map[string]any{"ev": ev, "hid": c.h.ID, "opi": img.opIdx, "S": S, "T": T, "op": info, "obs": obs, "depth": depth, "what": what,
		"between": img.between, "w": img.w, "keys": c.h.Keys, "times": c.h.Times, "mono": c.h.Mono})
}
