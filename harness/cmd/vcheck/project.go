package main

import (
	"encoding/binary"
	"fmt"
	"os"
	"path/filepath"
	"regexp"
	"sort"
	"strconv"

	"verif/refcodec"
)

// SegProj is the projection of one segment (log file + index file) by the reference codec.
type SegProj struct {
	Base        int64
	Ver         int
	Offs        []int64
	Parsed      bool // the log file parses completely
	Exact       bool // re-encoding the parsed records gives the same bytes
	FirstIsBase bool
	IxPresent   bool
	IxVer       int
	IxBase      bool // index offsets, positions and key hashes equal the derived index
	IxTs        bool // index timestamps equal the derived (monotone from 0) timestamps
	IxRun       bool // index timestamps are a running maximum over the segment's message times (from some carried start)
	LogSize     int64
	IxSize      int64
	Junk        string
	IxJunk      string
	Log         refcodec.LogFile
	Index       refcodec.IndexFile
}

type DirProj struct {
	Segs  []SegProj
	Stale int      // files that are neither a segment log/index nor the lock file
	Names []string // stale file names
}

var segFileRe = regexp.MustCompile(`^(\d{20})\.(log|index)$`)

func projectDir(dir string, times, keys bool) DirProj {
	var p DirProj
	es, err := os.ReadDir(dir)
	if err != nil {
		return p
	}
	logs := map[int64]bool{}
	idxs := map[int64]bool{}
	for _, e := range es {
		m := segFileRe.FindStringSubmatch(e.Name())
		if m == nil {
			if e.Name() != ".lock" {
				p.Stale++
				p.Names = append(p.Names, e.Name())
			}
			continue
		}
		base, _ := strconv.ParseInt(m[1], 10, 64)
		if m[2] == "log" {
			logs[base] = true
		} else {
			idxs[base] = true
		}
	}
	for b := range idxs {
		if !logs[b] {
			p.Stale++ // orphan index
			p.Names = append(p.Names, fmt.Sprintf("%020d.index", b))
		}
	}
	var bases []int64
	for b := range logs {
		bases = append(bases, b)
	}
	sort.Slice(bases, func(i, j int) bool { return bases[i] < bases[j] })
	for _, b := range bases {
		p.Segs = append(p.Segs, projectSeg(dir, b, times, keys))
	}
	return p
}

func projectSeg(dir string, base int64, times, keys bool) SegProj {
	s := SegProj{Base: base, Offs: []int64{}}
	lb, err := os.ReadFile(filepath.Join(dir, fmt.Sprintf("%020d.log", base)))
	if err != nil {
		s.Junk = "unreadable"
		return s
	}
	lf := refcodec.ParseLog(lb, base)
	s.Log = lf
	s.Ver, s.Parsed, s.Exact, s.Junk, s.LogSize = lf.Version, lf.Junk == "", lf.Exact, lf.Junk, lf.Size
	for _, r := range lf.Recs {
		s.Offs = append(s.Offs, r.Offset)
	}
	s.FirstIsBase = len(lf.Recs) == 0 || lf.Recs[0].Offset == base
	ib, err := os.ReadFile(filepath.Join(dir, fmt.Sprintf("%020d.index", base)))
	if err != nil {
		return s
	}
	s.IxPresent = true
	ix := refcodec.ParseIndex(ib, base, times, keys)
	s.Index = ix
	s.IxVer, s.IxSize, s.IxJunk = ix.Version, ix.Size, ix.Junk
	der := refcodec.DeriveIndex(lf.Recs, times, keys, 0)
	s.IxBase = ix.Junk == "" && len(ix.Items) == len(der)
	s.IxTs = s.IxBase
	s.IxRun = ix.Junk == "" && len(ix.Items) == len(lf.Recs)
	if s.IxRun && times {
		for i, r := range lf.Recs {
			ts := ix.Items[i].Timestamp
			if ts < r.Micros || (i > 0 && ts != max(r.Micros, ix.Items[i-1].Timestamp)) {
				s.IxRun = false
			}
		}
	}
	if s.IxBase {
		for i := range der {
			if ix.Items[i].Offset != der[i].Offset || ix.Items[i].Position != der[i].Position || ix.Items[i].KeyHash != der[i].KeyHash {
				s.IxBase = false
			}
			if ix.Items[i].Timestamp != der[i].Timestamp {
				s.IxTs = false
			}
		}
	}
	return s
}

func segsJSON(segs []SegProj) []map[string]any {
	out := make([]map[string]any, 0, len(segs))
	for _, s := range segs {
		out = append(out, map[string]any{"base": s.Base, "ver": s.Ver, "offs": s.Offs, "parsed": s.Parsed, "exact": s.Exact,
			"firstisbase": s.FirstIsBase, "backtoback": s.Parsed, "ixpresent": s.IxPresent, "ixbase": s.IxBase, "ixts": s.IxTs, "ixrun": s.IxRun,
			"ixver": s.IxVer, "junk": s.Junk, "ixjunk": s.IxJunk})
	}
	return out
}

// segVersions reads only the file headers: enough to know the format version of the file holding an offset.
type segVers struct {
	bases []int64
	vers  []int
}

func segVersions(dir string) segVers {
	var sv segVers
	es, _ := os.ReadDir(dir)
	for _, e := range es {
		m := segFileRe.FindStringSubmatch(e.Name())
		if m == nil || m[2] != "log" {
			continue
		}
		base, _ := strconv.ParseInt(m[1], 10, 64)
		f, err := os.Open(filepath.Join(dir, e.Name()))
		if err != nil {
			continue
		}
		var h [8]byte
		n, _ := f.ReadAt(h[:], 0)
		f.Close()
		sv.bases = append(sv.bases, base)
		sv.vers = append(sv.vers, refcodec.DetectLogVersion(h[:n], base))
	}
	return sv
}

func (sv segVers) verOf(off int64) int {
	v := 0
	for i, b := range sv.bases { // ReadDir sorts by name = by base
		if b <= off {
			v = sv.vers[i]
		}
	}
	return v
}

var _ = binary.BigEndian

// headVersion is the format version of the newest segment's log file.
func headVersion(dir string) int {
	sv := segVersions(dir)
	if len(sv.vers) == 0 {
		return 0
	}
	return sv.vers[len(sv.vers)-1]
}
