// vcheck: the check driver of /verif. Usage:
//
//	vcheck <property-id> <quick|thorough>
//	vcheck replay <path>
//
// Exit codes: 0 = property held on everything explored; 1 = VIOLATION (printed with replay path);
// 2 = infrastructure problem (never a verdict).
package main

import (
	"bytes"
	"encoding/json"
	"fmt"
	"os"
	"path/filepath"
	"strconv"
	"syscall"
	"time"
)

func envSeed() int64 {
	if s := os.Getenv("VERIF_SEED"); s != "" {
		if v, err := strconv.ParseInt(s, 10, 64); err == nil {
			return v
		}
	}
	return 1
}

func main() {
	if len(os.Args) < 3 {
		fmt.Fprintln(os.Stderr, "usage: vcheck <property-id> <quick|thorough> | vcheck replay <path>")
		os.Exit(2)
	}
	if d := os.Getenv("VERIF_SPEC_DIR"); d != "" {
		specDir = d
	}
	loadKnownFindings()
	if os.Args[1] == "c08-worker" {
		os.Exit(c08Worker(os.Args[2:]))
	}
	if os.Args[1] == "c14-worker" {
		os.Exit(c14Worker(os.Args[2:]))
	}
	if os.Args[1] == "replay" {
		os.Exit(replayFile(os.Args[2]))
	}
	prop, tier := os.Args[1], os.Args[2]
	if t := os.Getenv("VERIF_TIER"); t != "" && len(os.Args) < 3 {
		tier = t
	}
	if tier != "quick" && tier != "thorough" {
		fmt.Fprintln(os.Stderr, "tier must be quick or thorough")
		os.Exit(2)
	}
	seed := envSeed()
	t0 := time.Now()
	scratch, err := os.MkdirTemp("/dev/shm", "klev-verif-")
	if err != nil {
		scratch, err = os.MkdirTemp("", "klev-verif-")
		if err != nil {
			fmt.Fprintln(os.Stderr, "scratch:", err)
			os.Exit(2)
		}
	}
	code := 2
	go scratchWatchdog(scratch)
	defer func() {
		if os.Getenv("VERIF_KEEP") == "" {
			os.RemoveAll(scratch)
		} else {
			fmt.Fprintln(os.Stderr, "scratch kept:", scratch)
		}
		os.Exit(code)
	}()
	if p := seqProfile(prop, tier); p != nil {
		code = runSeq(p, tier, seed, scratch, t0)
		return
	}
	fmt.Fprintf(os.Stderr, "no check for property %s\n", prop)
}

func runSeq(p *SeqProfile, tier string, seed int64, scratch string, t0 time.Time) int {
	r := &SeqRun{P: p, Tier: tier, Seed: seed, Scratch: scratch, hists: map[int]*History{}, hhists: map[int][]byte{}, fcases: map[int]frameCase{}, dcases: map[int]bool{}, ncases: map[int]*ncaseRef{}, chists: map[int]string{}, shardSpec: map[string][2]string{}, Counts: map[string]int{},
		Sigs: map[string]struct{}{}, KFHits: map[string]int{}}
	if olds, _ := filepath.Glob(fmt.Sprintf("/verif/replays/%s-*.json", p.Prop)); len(olds) > 0 {
		for _, o := range olds {
			os.Remove(o)
		}
	}
	// 1. design level
	r.design()
	// 2. spec -> code: TLC-generated histories
	if p.GenSpec != nil {
		hs, nstates, err := genFromSpec(p.GenSpec, tier, seed, scratch)
		if err != nil {
			r.infra("spec-generated histories: %v", err)
		} else {
			r.GenStates = nstates
			r.execHistories(hs, "gen")
			r.NGen = len(hs)
		}
	}
	// 3. code -> spec: random histories
	var hs []*History
	for i := 0; i < p.NRandom; i++ {
		id := 1000000 + i
		if p.Hist != nil {
			hs = append(hs, p.Hist(id, seed))
		} else {
			hs = append(hs, genHistory(id, seed, p.Gen))
		}
	}
	r.execHistories(hs, "rnd")
	if p.Extra != nil {
		p.Extra(r)
	}
	r.sampleFromShards()
	// 4. TLC judges every trace
	r.validateShards()
	return r.finish(t0)
}

func (r *SeqRun) finish(t0 time.Time) int {
	for id, n := range r.KFHits {
		fmt.Printf("KNOWN-FINDING: property=%s %s (%d events)\n", r.P.Prop, kfWhat(id), n)
	}
	// TLC states of this run: the bounded design-level runs plus the trace-validation runs (one state per
	// accepted trace line; for TraceLin the states of the linearization search)
	states, trans := r.States+r.TraceSt, r.Trans+r.TraceSt
	cov := map[string]any{
		"states":                        states,
		"transitions":                   trans,
		"traces_validated_against_impl": r.NHist,
		"samples":                       r.Samples,
		"evaluations":                   r.Events,
		"distinct_nontrivial":           len(r.Sigs),
		"rule": "a case is one recorded API event of the real code judged by TLC against the property-level spec; " +
			"distinct_nontrivial counts distinct on-disk layouts (file names and sizes x index configuration) on which the observation sweep ran. " + r.P.Rule,
		"exhaustive":          false,
		"events_by_kind":      r.Counts,
		"design_runs":         r.Design,
		"trace_states":        r.TraceSt,
		"design_states":       r.States,
		"design_transitions":  r.Trans,
		"known_findings_hit":  r.KFHits,
		"infrastructure":      r.Infra,
		"notes":               r.Notes,
		"histories_random":    r.P.NRandom,
		"histories_generated": r.NGen,
		"generator_states":    r.GenStates,
		"model_drift":         r.Drift,
	}
	if len(r.Samples) == 0 {
		cov["samples"] = []any{"no events recorded"}
	}
	ev := map[string]any{
		"property_id": r.P.Prop, "tier": r.Tier, "seed": r.Seed, "level": "model_checking", "coverage": cov,
		"assumptions": append([]string{"TLC 1.8 evaluates the trace spec correctly", "the trace recorder (harness) reports results of the real calls faithfully"}, r.P.Assume...),
		"wall_s":      time.Since(t0).Seconds(), "violations": len(r.Viol),
	}
	writeEvidence(r.P.Prop, ev)
	fmt.Printf("%s %s seed=%d: histories=%d events=%d layouts=%d design_states=%d violations=%d infra=%d wall=%.1fs\n",
		r.P.Prop, r.Tier, r.Seed, r.NHist, r.Events, len(r.Sigs), r.States, len(r.Viol), len(r.Infra), time.Since(t0).Seconds())
	for _, s := range r.Infra {
		fmt.Fprintln(os.Stderr, "INFRA:", truncate(s, 2000))
	}
	if len(r.Viol) > 0 {
		return 1
	}
	if len(r.Infra) > 0 {
		return 2
	}
	if r.Events == 0 {
		fmt.Fprintln(os.Stderr, "INFRA: no events recorded")
		return 2
	}
	return 0
}

func writeEvidence(prop string, ev map[string]any) {
	dir := os.Getenv("VERIF_EVIDENCE_DIR")
	if dir == "" {
		dir = "/verif/evidence"
	}
	os.MkdirAll(dir, 0o755)
	b, _ := json.MarshalIndent(ev, "", " ")
	os.WriteFile(filepath.Join(dir, prop+".json"), b, 0o644)
}

func replayFile(path string) int {
	b, err := os.ReadFile(path)
	if err != nil {
		fmt.Fprintln(os.Stderr, err)
		return 2
	}
	var raw struct {
		Lin    json.RawMessage `json:"lin_history"`
		Report string          `json:"report"`
		Prop   string          `json:"property"`
	}
	json.Unmarshal(b, &raw)
	if raw.Report != "" {
		fmt.Printf("replay: a data race report cannot be re-executed deterministically; the recorded report:\n%s\nVIOLATION property=%s replay=%s\n", raw.Report, raw.Prop, path)
		return 1
	}
	if raw.Lin != nil {
		scratch, _ := os.MkdirTemp("/dev/shm", "klev-verif-")
		defer os.RemoveAll(scratch)
		one := filepath.Join(scratch, "one.ndjson")
		var compact bytes.Buffer
		json.Compact(&compact, raw.Lin)
		writeLines(one, []string{compact.String()})
		bad, run := judgeLin(one, scratch)
		if run.Infra != nil {
			fmt.Fprintln(os.Stderr, "INFRA:", run.Infra)
			return 2
		}
		if len(bad) == 0 {
			fmt.Println("replay: the history has a linearization (no violation)")
			return 0
		}
		fmt.Printf("VIOLATION property=%s replay=%s\n  the recorded history has no linearization\n", raw.Prop, path)
		return 1
	}
	var v Violation
	if err := json.Unmarshal(b, &v); err != nil {
		fmt.Fprintln(os.Stderr, err)
		return 2
	}
	p := seqProfile(v.Profile, "quick")
	if p == nil || (v.History == nil && v.HHist == nil && v.FCase == nil && v.DCase == nil && v.NCase == nil) {
		fmt.Fprintln(os.Stderr, "replay: unknown profile or no history")
		return 2
	}
	scratch, _ := os.MkdirTemp("/dev/shm", "klev-verif-")
	defer os.RemoveAll(scratch)
	r := &SeqRun{P: p, Scratch: scratch, Tier: "quick", Seed: 1, hists: map[int]*History{}, hhists: map[int][]byte{}, fcases: map[int]frameCase{}, dcases: map[int]bool{}, ncases: map[int]*ncaseRef{}, chists: map[int]string{}, shardSpec: map[string][2]string{}, Counts: map[string]int{}, Sigs: map[string]struct{}{}, KFHits: map[string]int{}}
	ok, line, ev := r.replayAny(&v)
	if len(r.Infra) > 0 {
		fmt.Fprintln(os.Stderr, "INFRA:", r.Infra)
		return 2
	}
	if ok {
		fmt.Println("replay: trace accepted (no violation)")
		return 0
	}
	fmt.Printf("VIOLATION property=%s replay=%s\n  rejected at line %d: %s\n", v.Prop, path, line, ev)
	return 1
}

// scratchWatchdog: the scratch directory lives in RAM (/dev/shm). A run that fills it would take the machine's
// memory (and other runs' TLC processes) with it: give up early instead - an infrastructure failure, never a verdict.
func scratchWatchdog(scratch string) {
	for {
		time.Sleep(3 * time.Second)
		var st syscall.Statfs_t
		if err := syscall.Statfs(scratch, &st); err != nil {
			continue
		}
		if free := st.Bavail * uint64(st.Bsize); free < 5<<30 {
			fmt.Fprintf(os.Stderr, "INFRA: less than 5 GiB left on the scratch file system (%s): giving up\n", scratch)
			os.RemoveAll(scratch)
			os.Exit(2)
		}
	}
}
