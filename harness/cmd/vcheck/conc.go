package main

import (
	"encoding/json"
	"fmt"
	"math/rand"
	"os"
	"os/exec"
	"path/filepath"
	"regexp"
	"runtime"
	"strconv"
	"strings"
	"sync"
	"sync/atomic"
	"time"

	"github.com/klev-dev/klevdb"
)

// C08: concurrent histories (free-running and window placement through pause points), recorded with
// invocation/return stamps, judged by TLC (TraceLin). The worker is built with the race detector.

type cop struct {
	ID       int     `json:"id"`
	P        int     `json:"p"`
	Inv      int64   `json:"inv"`
	Ret      int64   `json:"ret"`
	Op       string  `json:"op"`
	Off      int64   `json:"off"`
	Max      int64   `json:"max"`
	Key      string  `json:"key"`
	T        int64   `json:"t"`
	S        []int64 `json:"S"`
	Batch    []MM    `json:"batch"`
	Assigned []int64 `json:"assigned"`
	Next     int64   `json:"next"`
	Msgs     []MM    `json:"msgs"`
	Err      string  `json:"err"`
	Errs     string  `json:"errs,omitempty"`
}

type chist struct {
	ID    int      `json:"id"`
	Kind  string   `json:"kind"`
	What  string   `json:"what"`
	Keys  bool     `json:"keys"`
	Times bool     `json:"times"`
	Init  absState `json:"init"`
	Ops   []cop    `json:"ops"`
}

type cenv struct {
	segs  [][]int64 // offsets per segment of the prepared log
	l     klevdb.Log
	x     *Exec
	clock atomic.Int64
	mu    sync.Mutex
	ops   []cop
	vid   atomic.Int64
	dir   string
	// forceKey: every published message gets this key (tailing ConsumeByKey runs: each publish concerns the tailers)
	forceKey string
}

// prepLog builds a small multi-segment log with holes.
func prepLog(dir string, rng *rand.Rand, variant int) (*cenv, absState, error) {
	os.RemoveAll(dir)
	os.MkdirAll(dir, 0o700)
	e := &cenv{dir: dir}
	e.x = NewExec(&History{ID: 0, Keys: true, Times: true, Mono: true}, dir, nil, Obs{})
	opts := klevdb.Options{KeyIndex: true, TimeIndex: true, Rollover: int64(120 + rng.Intn(200))}
	if variant%3 == 1 {
		opts.Version.KeepRewriteVersion = true
	}
	l, err := klevdb.Open(dir, opts)
	if err != nil {
		return nil, absState{}, err
	}
	e.l = l
	n := rng.Intn(9)
	for i := 0; i < n; i++ {
		e.publish(1+rng.Intn(2), rng)
	}
	if n > 2 && rng.Intn(2) == 0 {
		nx, _ := l.NextOffset()
		l.Delete(map[int64]struct{}{int64(rng.Intn(int(nx))): {}})
	}
	if variant%2 == 0 { // a head segment with several messages that is due for rollover
		e.publish(3+rng.Intn(2), rng)
	}
	if variant%4 == 3 { // cold readers
		l.Close()
		l, err = klevdb.Open(dir, opts)
		if err != nil {
			return nil, absState{}, err
		}
		e.l = l
	}
	all, _, _ := scanLog(l, 32)
	nx, _ := l.NextOffset()
	for _, sp := range projectDir(dir, true, true).Segs {
		if len(sp.Offs) > 0 {
			e.segs = append(e.segs, sp.Offs)
		}
	}
	e.ops = nil
	return e, absState{Live: e.x.conv(all), Next: nx}, nil
}

var concKeys = []string{"a", "b", "g", "n"}

func (e *cenv) batch(n int, rng *rand.Rand) []klevdb.Message {
	var b []klevdb.Message
	for i := 0; i < n; i++ {
		id := int(e.vid.Add(1))
		v := valueBytes(id, 8+rng.Intn(24))
		e.mu.Lock()
		e.x.vals[string(v)] = id
		e.mu.Unlock()
		k := concKeys[rng.Intn(len(concKeys))]
		if e.forceKey != "" {
			k = e.forceKey
		}
		b = append(b, klevdb.Message{Key: keyBytes[k], Value: v}) // zero time: assigned under the writer lock
	}
	return b
}

func (e *cenv) convLocked(ms []klevdb.Message) []MM {
	e.mu.Lock()
	defer e.mu.Unlock()
	return e.x.conv(ms)
}

func (e *cenv) record(o cop) {
	e.mu.Lock()
	o.ID = len(e.ops) + 1
	if o.S == nil {
		o.S = []int64{}
	}
	if o.Batch == nil {
		o.Batch = []MM{}
	}
	if o.Assigned == nil {
		o.Assigned = []int64{}
	}
	if o.Msgs == nil {
		o.Msgs = []MM{}
	}
	e.ops = append(e.ops, o)
	e.mu.Unlock()
}

func (e *cenv) publish(n int, rng *rand.Rand) {
	b := e.batch(n, rng)
	o := cop{Op: "publish"}
	o.Inv = e.clock.Add(1)
	next, err := e.l.Publish(b)
	o.Ret = e.clock.Add(1)
	o.Next, o.Err, o.Errs = next, errClass(err), errStr(err)
	for _, m := range b {
		o.Assigned = append(o.Assigned, m.Offset)
	}
	o.Batch = e.convLocked(b)
	for i := range o.Batch {
		o.Batch[i].Off = -9
	}
	e.record(o)
}

type ccall struct {
	Op  string
	Off int64
	Max int64
	Key string
	T   int64
	S   []int64
	N   int
}

func (c ccall) String() string {
	switch c.Op {
	case "publish":
		return fmt.Sprintf("Publish(%d)", c.N)
	case "consume":
		return fmt.Sprintf("Consume(%d,%d)", c.Off, c.Max)
	case "get":
		return fmt.Sprintf("Get(%d)", c.Off)
	case "getbykey":
		return "GetByKey(" + c.Key + ")"
	case "consumebykey":
		return fmt.Sprintf("ConsumeByKey(%s,%d,%d)", c.Key, c.Off, c.Max)
	case "getbytime":
		return fmt.Sprintf("GetByTime(%d)", c.T)
	case "delete":
		return fmt.Sprintf("Delete(%v)", c.S)
	}
	return c.Op
}

func (e *cenv) call(p int, c ccall, rng *rand.Rand) (o cop) {
	defer func() {
		if r := recover(); r != nil {
			o = cop{P: p, Op: c.Op, Inv: e.clock.Add(1), Ret: e.clock.Add(1), Err: "Panic", Errs: fmt.Sprint(r)}
			e.record(o)
		}
	}()
	o = cop{P: p, Op: c.Op, Off: c.Off, Max: c.Max, Key: c.Key, T: c.T, S: c.S}
	switch c.Op {
	case "publish":
		b := e.batch(c.N, rng)
		o.Inv = e.clock.Add(1)
		next, err := e.l.Publish(b)
		o.Ret = e.clock.Add(1)
		o.Next, o.Err, o.Errs = next, errClass(err), errStr(err)
		for _, m := range b {
			o.Assigned = append(o.Assigned, m.Offset)
		}
		o.Batch = e.convLocked(b)
		for i := range o.Batch {
			o.Batch[i].Off = -9
		}
	case "consume":
		o.Inv = e.clock.Add(1)
		n, ms, err := e.l.Consume(c.Off, c.Max)
		o.Ret = e.clock.Add(1)
		o.Next, o.Err, o.Errs, o.Msgs = n, errClass(err), errStr(err), e.convLocked(ms)
	case "get":
		o.Inv = e.clock.Add(1)
		m, err := e.l.Get(c.Off)
		o.Ret = e.clock.Add(1)
		o.Err, o.Errs = errClass(err), errStr(err)
		if err == nil {
			o.Msgs = e.convLocked([]klevdb.Message{m})
		}
	case "getbykey":
		o.Inv = e.clock.Add(1)
		m, err := e.l.GetByKey(keyBytes[c.Key])
		o.Ret = e.clock.Add(1)
		o.Err, o.Errs = errClass(err), errStr(err)
		if err == nil {
			o.Msgs = e.convLocked([]klevdb.Message{m})
		}
	case "consumebykey":
		o.Inv = e.clock.Add(1)
		n, ms, err := e.l.ConsumeByKey(keyBytes[c.Key], c.Off, c.Max)
		o.Ret = e.clock.Add(1)
		o.Next, o.Err, o.Errs, o.Msgs = n, errClass(err), errStr(err), e.convLocked(ms)
	case "getbytime":
		o.Inv = e.clock.Add(1)
		m, err := e.l.GetByTime(time.UnixMicro(e.x.t0 + c.T))
		o.Ret = e.clock.Add(1)
		o.Err, o.Errs = errClass(err), errStr(err)
		if err == nil {
			o.Msgs = e.convLocked([]klevdb.Message{m})
		}
	case "delete":
		set := map[int64]struct{}{}
		for _, s := range c.S {
			set[s] = struct{}{}
		}
		o.Inv = e.clock.Add(1)
		del, _, err := e.l.Delete(set)
		o.Ret = e.clock.Add(1)
		o.Err, o.Errs, o.Msgs = errClass(err), errStr(err), e.convLocked(del)
	case "sync":
		o.Inv = e.clock.Add(1)
		n, err := e.l.Sync()
		o.Ret = e.clock.Add(1)
		o.Next, o.Err, o.Errs = n, errClass(err), errStr(err)
	case "nextoffset":
		o.Inv = e.clock.Add(1)
		n, err := e.l.NextOffset()
		o.Ret = e.clock.Add(1)
		o.Next, o.Err, o.Errs = n, errClass(err), errStr(err)
	case "gc":
		o.Inv = e.clock.Add(1)
		err := e.l.GC(0)
		o.Ret = e.clock.Add(1)
		o.Err, o.Errs = errClass(err), errStr(err)
	case "stat":
		o.Inv = e.clock.Add(1)
		_, err := e.l.Stat()
		o.Ret = e.clock.Add(1)
		o.Err, o.Errs = errClass(err), errStr(err)
	}
	e.record(o)
	return o
}

// segDelete: offset sets shaped after the segment layout (first and last of a segment with survivors, a whole
// segment, everything but one message): the shapes that exercise the rebase / tail-delete / emptying paths
func (e *cenv) segDelete(rng *rand.Rand) ccall {
	if len(e.segs) == 0 {
		return ccall{Op: "delete", S: []int64{0}}
	}
	sg := e.segs[len(e.segs)-1]
	if rng.Intn(3) == 0 {
		sg = e.segs[rng.Intn(len(e.segs))]
	}
	var s []int64
	switch rng.Intn(5) {
	case 0, 4: // first and last
		s = []int64{sg[0], sg[len(sg)-1]}
	case 1: // the whole segment
		s = append(s, sg...)
	case 2: // all but the first
		s = append(s, sg[1:]...)
	default: // first only
		s = []int64{sg[0]}
	}
	if len(s) == 0 {
		s = []int64{sg[0]}
	}
	return ccall{Op: "delete", S: s}
}

func randCall(rng *rand.Rand, next int64) ccall {
	off := int64(rng.Intn(int(next)+4)) - 2
	switch r := rng.Intn(20); {
	case r < 5:
		return ccall{Op: "publish", N: 1 + rng.Intn(3)}
	case r < 9:
		return ccall{Op: "consume", Off: off, Max: int64(1 + rng.Intn(4))}
	case r < 11:
		return ccall{Op: "get", Off: off}
	case r < 12:
		return ccall{Op: "getbykey", Key: concKeys[rng.Intn(len(concKeys))]}
	case r < 13:
		return ccall{Op: "consumebykey", Key: concKeys[rng.Intn(len(concKeys))], Off: off, Max: 3}
	case r < 14:
		return ccall{Op: "getbytime", T: int64(rng.Intn(3000))}
	case r < 17:
		s := []int64{int64(rng.Intn(int(next) + 2))}
		if rng.Intn(3) == 0 {
			s = append(s, s[0]+1)
		}
		return ccall{Op: "delete", S: s}
	case r < 18:
		return ccall{Op: "sync"}
	case r < 19:
		return ccall{Op: []string{"nextoffset", "stat"}[rng.Intn(2)]}
	}
	return ccall{Op: "gc"}
}

// freeRun: seeded goroutine mix on a prepared log.
func freeRun(id int, seed int64, root string) (*chist, error) {
	rng := rand.New(rand.NewSource(seed*65537 + int64(id)))
	e, init, err := prepLog(filepath.Join(root, fmt.Sprintf("c8-%d", id)), rng, id)
	if err != nil {
		return nil, err
	}
	defer os.RemoveAll(e.dir)
	P := 2 + rng.Intn(4)
	M := 3 + rng.Intn(6)
	if P*M > 28 {
		M = 28 / P
	}
	var wg sync.WaitGroup
	for p := 0; p < P; p++ {
		wg.Add(1)
		prng := rand.New(rand.NewSource(seed*131 + int64(id)*17 + int64(p)))
		go func(p int) {
			defer wg.Done()
			for i := 0; i < M; i++ {
				nx := init.Next + int64(i*P)
				c := randCall(prng, nx)
				if c.Op == "delete" && prng.Intn(2) == 0 {
					c = e.segDelete(prng)
				}
				e.call(p, c, prng)
			}
		}(p)
	}
	if !waitBounded(&wg, 40*time.Second) {
		return nil, fmt.Errorf("free-running calls did not return within 40s (deadlock?)")
	}
	e.cursorScan(9, rng)
	e.l.Close()
	return &chist{ID: id, Kind: "free", What: fmt.Sprintf("%d goroutines x %d calls", P, M), Keys: true, Times: true, Init: init, Ops: e.ops}, nil
}

// tailRun: one publisher and consumers that tail the log, each polling at the offset its last call returned and
// released just before every Publish call, so that their calls overlap the appends: a skipped, repeated or
// half-visible batch leaves a history with no linearization.
func tailRun(id int, seed int64, root string) (*chist, error) {
	rng := rand.New(rand.NewSource(seed*65537 + int64(id)))
	e, init, err := prepLog(filepath.Join(root, fmt.Sprintf("c8-%d", id)), rng, id)
	if err != nil {
		return nil, err
	}
	defer os.RemoveAll(e.dir)
	C := 2 + rng.Intn(2)
	NP := 9 + rng.Intn(6)
	per := (58 - NP) / C
	// every other tail run follows one key: all publishes carry it, all consumers use ConsumeByKey
	tailKey := ""
	if id%2 == 0 {
		tailKey = concKeys[rng.Intn(len(concKeys))]
		e.forceKey = tailKey
	}
	var pubSeq atomic.Int64
	var done atomic.Bool
	var wg sync.WaitGroup
	for p := 1; p <= C; p++ {
		wg.Add(1)
		prng := rand.New(rand.NewSource(seed*131 + int64(id)*17 + int64(p)))
		go func(p int) {
			defer wg.Done()
			off := init.Next
			byKey := tailKey != ""
			key := tailKey
			seen := int64(0)
			for i := 0; i < per; i++ {
				for pubSeq.Load() == seen && !done.Load() {
					runtime.Gosched()
				}
				fin := done.Load()
				seen = pubSeq.Load()
				for spin := prng.Intn(400); spin > 0; spin-- {
					_ = pubSeq.Load()
				}
				var o cop
				if byKey {
					o = e.call(p, ccall{Op: "consumebykey", Key: key, Off: off, Max: 4}, prng)
				} else {
					o = e.call(p, ccall{Op: "consume", Off: off, Max: 4}, prng)
				}
				if o.Err != "" {
					return
				}
				off = o.Next
				if fin && len(o.Msgs) == 0 {
					return
				}
			}
		}(p)
	}
	for i := 0; i < NP; i++ {
		pubSeq.Add(1)
		e.call(0, ccall{Op: "publish", N: 1 + rng.Intn(2)}, rng)
		for spin := rng.Intn(2000); spin > 0; spin-- {
			_ = pubSeq.Load()
		}
	}
	done.Store(true)
	if !waitBounded(&wg, 40*time.Second) {
		return nil, fmt.Errorf("tailing consumers did not return within 40s (deadlock?)")
	}
	e.l.Close()
	return &chist{ID: id, Kind: "tail", What: fmt.Sprintf("1 publisher x %d, %d tailing consumers", NP, C), Keys: true, Times: true, Init: init, Ops: e.ops}, nil
}

// waitBounded: code that deadlocks must end a history as "hang", not the whole run.
func waitBounded(wg *sync.WaitGroup, d time.Duration) bool {
	done := make(chan struct{})
	go func() { wg.Wait(); close(done) }()
	select {
	case <-done:
		return true
	case <-time.After(d):
		return false
	}
}

// ---- window placement

type winHandler struct {
	point   string
	skip    int // let this many arrivals pass first
	used    bool
	arrived chan struct{}
	release chan struct{}
}

func (w *winHandler) Arrive(point string) {
	if w.used || point != w.point {
		return
	}
	if w.skip > 0 {
		w.skip--
		return
	}
	w.used = true
	w.arrived <- struct{}{}
	<-w.release
}

// the windows in which another call can interleave with lock-free parts of Delete / rollover come up more often
var windowWeights = map[string]int{"fs.fsync": 6, "fs.rename": 2, "getbytime.segment": 3, "getbykey.segment": 2, "consumebykey.segment": 2, "reader.consumebykey.next": 2, "writer.index.searched": 4, "delete.found": 6, "delete.checked": 4, "delete.rewritten": 4, "delete.reader.before-swap": 2,
	"publish.roll.opened": 2, "publish.roll.swapped": 2}

func pickWindow(id int) string {
	var ws []string
	for _, w := range windowPoints {
		n := windowWeights[w]
		if n == 0 {
			n = 1
		}
		for k := 0; k < n; k++ {
			ws = append(ws, w)
		}
	}
	return ws[id%len(ws)]
}

var windowPoints = []string{
	"publish.locked", "publish.roll.synced", "publish.roll.opened", "publish.roll.swapped", "publish.roll.closed", "publish.written",
	"writer.record", "writer.item", "writer.before-append",
	"delete.found", "delete.checked", "delete.rewritten", "delete.reader.before-swap", "writer.delete.validated",
	"reader.consume.index", "reader.consume.messages", "reader.index.loading", "reader.messages.loading", "reader.gc.index-closed",
	"reader.index.wlock", "reader.messages.wlock", "writer.index.searched",
	// the walks of the key / time lookups (hook commit a290d78): held between two reader objects
	"getbykey.segment", "getbytime.segment", "getbytime.next", "consumebykey.segment", "reader.consumebykey.next",
	// file-system steps as pause points (the FS tap): a call held right after one of its fsyncs / renames / writes
	"fs.fsync", "fs.rename", "fs.write",
}

// placement: call A is held at pause point W; calls B then C run to completion (or block on A's locks) inside the window.
func placement(id int, seed int64, root string) (*chist, error) {
	installPause()
	rng := rand.New(rand.NewSource(seed*92821 + int64(id)))
	e, init, err := prepLog(filepath.Join(root, fmt.Sprintf("c8-%d", id)), rng, id)
	if err != nil {
		return nil, err
	}
	defer os.RemoveAll(e.dir)
	w := pickWindow(id)
	var a ccall
	switch {
	case strings.HasPrefix(w, "publish."), strings.HasPrefix(w, "writer.record"), strings.HasPrefix(w, "writer.item"), strings.HasPrefix(w, "writer.before"):
		a = ccall{Op: "publish", N: 1 + rng.Intn(3)}
	case strings.HasPrefix(w, "delete."), strings.HasPrefix(w, "writer.delete"):
		s := []int64{int64(rng.Intn(int(init.Next) + 1))}
		if rng.Intn(2) == 0 && init.Next > 0 {
			s = []int64{init.Next - 1} // in the writing segment
		}
		a = ccall{Op: "delete", S: s}
		if rng.Intn(4) > 0 {
			a = e.segDelete(rng)
		}
	case w == "reader.gc.index-closed":
		a = ccall{Op: "gc"}
	case w == "fs.fsync":
		// Sync (and a Publish that rolls over, a Delete) held between its fsyncs: the writer must not change under it
		switch rng.Intn(4) {
		case 0:
			a = ccall{Op: "publish", N: 1 + rng.Intn(3)}
		case 1:
			a = e.segDelete(rng)
		default:
			a = ccall{Op: "sync"}
		}
	case w == "fs.rename":
		a = e.segDelete(rng)
	case w == "fs.write":
		a = ccall{Op: "publish", N: 1 + rng.Intn(3)}
	case w == "getbykey.segment":
		a = ccall{Op: "getbykey", Key: concKeys[rng.Intn(len(concKeys))]}
	case w == "getbytime.segment", w == "getbytime.next":
		// times of the prepared log are "now"; a query a little in the past or the future of the newest message
		a = ccall{Op: "getbytime", T: e.x.relT(time.Now()) - int64(rng.Intn(3))*int64(rng.Intn(2000))}
	case w == "consumebykey.segment", w == "reader.consumebykey.next":
		a = ccall{Op: "consumebykey", Key: concKeys[rng.Intn(len(concKeys))], Off: int64(rng.Intn(int(init.Next)+2)) - 1, Max: 3}
	case w == "writer.index.searched":
		// a consumer at (or just before) the end of the log, held between its search of the writer's items and its
		// read of the next offset, while a Publish tries to append
		a = ccall{Op: "consume", Off: init.Next - int64(rng.Intn(2)*rng.Intn(2)), Max: 3}
	default:
		a = ccall{Op: "consume", Off: int64(rng.Intn(int(init.Next) + 1)), Max: 3}
	}
	skip := rng.Intn(2) * rng.Intn(2)
	lookupWin := strings.HasPrefix(w, "getby") || strings.Contains(w, "consumebykey") || strings.HasPrefix(w, "fs.")
	if lookupWin {
		skip = rng.Intn(3) // the interesting windows of a walk are after its first reader object
	}
	h := &winHandler{point: w, skip: skip, arrived: make(chan struct{}, 1), release: make(chan struct{})}
	doneA := make(chan struct{})
	go func() {
		gid := curGoid()
		pauseProcs.Store(gid, h)
		defer pauseProcs.Delete(gid)
		e.call(0, a, rng)
		close(doneA)
	}()
	reached := false
	select {
	case <-h.arrived:
		reached = true
	case <-doneA:
	case <-time.After(5 * time.Second):
	}
	what := fmt.Sprintf("A=%s held at %s (reached=%v)", a, w, reached)
	var pend []chan struct{}
	if reached {
		for k := 1; k <= 2; k++ {
			c := randCall(rng, init.Next+2)
			if k == 1 && w == "writer.index.searched" {
				c = ccall{Op: "publish", N: 1 + rng.Intn(3)}
			}
			if k == 1 && lookupWin && rng.Intn(4) > 0 {
				c = ccall{Op: "publish", N: 1 + rng.Intn(3)} // fills / rolls the writing segment under the held call
				if rng.Intn(3) == 0 && init.Next > 0 {
					c = ccall{Op: "delete", S: []int64{init.Next - 1}} // a tail delete replaces the writer
				}
			}
			if k == 1 && strings.HasPrefix(w, "delete.") && rng.Intn(4) > 0 {
				c = ccall{Op: "publish", N: 1 + rng.Intn(3)} // a publish (possibly rolling over) inside the delete window
			}
			if c.Op == "delete" && rng.Intn(2) == 0 {
				c = e.segDelete(rng)
			}
			what += fmt.Sprintf("; %s", c)
			d := make(chan struct{})
			crng := rand.New(rand.NewSource(seed + int64(id*7+k)))
			go func(k int) { e.call(k, c, crng); close(d) }(k)
			select {
			case <-d:
			case <-time.After(25 * time.Millisecond):
				what += " [blocked]"
				pend = append(pend, d)
			}
		}
		h.release <- struct{}{}
	}
	select {
	case <-doneA:
	case <-time.After(20 * time.Second):
		return nil, fmt.Errorf("placement %d: call A never returned (%s)", id, what)
	}
	for _, d := range pend {
		select {
		case <-d:
		case <-time.After(20 * time.Second):
			return nil, fmt.Errorf("placement %d: a blocked call never returned (%s)", id, what)
		}
	}
	// a final cursor scan closes the history: everything published and not deleted must still be reachable
	e.cursorScan(9, rng)
	e.l.Close()
	return &chist{ID: id, Kind: "placement", What: what, Keys: true, Times: true, Init: init, Ops: e.ops}, nil
}

// readerTwoStage: the lazy-load / unload protocol of a closed segment's reader (Reader.tla) through two windows
// in ONE history: (1) after GC(0) has unloaded everything, read A is held on the slow path of the lazy load of a
// segment - it has seen "not loaded" and is about to take the write lock, or holds it and is loading - while read B
// loads the same segment (or has to wait for A), so that A finds it loaded by somebody else when it looks again under
// the lock; (2) read C on that segment is
// held with the messages in use while GC(0) runs to completion. A user counter that went wrong in (1) lets the GC of
// (2) unmap what C is about to read.
func readerTwoStage(id int, seed int64, root string) (*chist, error) {
	installPause()
	rng := rand.New(rand.NewSource(seed*92821 + int64(id)))
	e, init, err := prepLog(filepath.Join(root, fmt.Sprintf("c8-%d", id)), rng, id)
	if err != nil {
		return nil, err
	}
	defer os.RemoveAll(e.dir)
	what := "two-stage reader windows:"
	if len(init.Live) == 0 {
		e.cursorScan(9, rng) // (a history without calls cannot be written: the Json module has no null)
		e.l.Close()
		return &chist{ID: id, Kind: "reader2", What: what + " empty log", Keys: true, Times: true, Init: init, Ops: e.ops}, nil
	}
	target := init.Live[rng.Intn((len(init.Live)+1)/2)] // the older half: closed segments
	read := func() ccall {
		switch rng.Intn(4) {
		case 0:
			return ccall{Op: "get", Off: target.Off}
		case 1:
			return ccall{Op: "getbykey", Key: target.Key}
		case 2:
			return ccall{Op: "consumebykey", Key: target.Key, Off: target.Off, Max: 2}
		}
		return ccall{Op: "consume", Off: target.Off, Max: 3}
	}
	hold := func(p int, point string, a ccall, inside ...ccall) error {
		h := &winHandler{point: point, arrived: make(chan struct{}, 1), release: make(chan struct{})}
		doneA := make(chan struct{})
		go func() {
			gid := curGoid()
			pauseProcs.Store(gid, h)
			defer pauseProcs.Delete(gid)
			e.call(p, a, rng)
			close(doneA)
		}()
		reached := false
		select {
		case <-h.arrived:
			reached = true
		case <-doneA:
		case <-time.After(5 * time.Second):
		}
		what += fmt.Sprintf(" A=%s held at %s (reached=%v)", a, point, reached)
		var pend []chan struct{}
		if reached {
			for k, c := range inside {
				what += fmt.Sprintf("; %s", c)
				d := make(chan struct{})
				crng := rand.New(rand.NewSource(seed + int64(id*7+k)))
				go func(k int, c ccall) { e.call(p+1+k, c, crng); close(d) }(k, c)
				select {
				case <-d:
				case <-time.After(25 * time.Millisecond):
					what += " [blocked]"
					pend = append(pend, d)
				}
			}
			h.release <- struct{}{}
		}
		for _, d := range append([]chan struct{}{doneA}, pend...) {
			select {
			case <-d:
			case <-time.After(20 * time.Second):
				return fmt.Errorf("reader2 %d: a call never returned (%s)", id, what)
			}
		}
		return nil
	}
	e.call(7, ccall{Op: "gc"}, rng) // everything unloaded
	here := func() ccall {          // a read that certainly touches the target's segment
		if rng.Intn(2) == 0 {
			return ccall{Op: "get", Off: target.Off}
		}
		return ccall{Op: "consume", Off: target.Off, Max: 3}
	}
	// (1) A has seen "not loaded" and is about to take the write lock (or, every other history, already holds it and is
	// loading) when B loads the same segment / has to wait for it
	p1 := []string{"reader.messages.wlock", "reader.messages.loading", "reader.index.wlock"}[id/6%3]
	if err := hold(0, p1, here(), here(), read()); err != nil {
		return nil, err
	}
	what += " |"
	if err := hold(3, "reader.consume.messages", ccall{Op: "consume", Off: target.Off, Max: 3}, ccall{Op: "gc"}, read()); err != nil {
		return nil, err
	}
	e.cursorScan(9, rng)
	e.l.Close()
	return &chist{ID: id, Kind: "reader2", What: what, Keys: true, Times: true, Init: init, Ops: e.ops}, nil
}

// cursorScan: Consume from OffsetOldest feeding the returned offset back, every call recorded.
func (e *cenv) cursorScan(p int, rng *rand.Rand) {
	off := klevdb.OffsetOldest
	for i := 0; i < 24; i++ {
		e.call(p, ccall{Op: "consume", Off: off, Max: 4}, rng)
		e.mu.Lock()
		last := e.ops[len(e.ops)-1]
		e.mu.Unlock()
		if last.Err != "" || (len(last.Msgs) == 0 && last.Next == off) {
			return
		}
		off = last.Next
	}
}

// c08Worker: entry point of the (race-built) child process.
func c08Worker(args []string) int {
	shard, _ := strconv.Atoi(args[0])
	nshards, _ := strconv.Atoi(args[1])
	nfree, _ := strconv.Atoi(args[2])
	nplace, _ := strconv.Atoi(args[3])
	seed, _ := strconv.ParseInt(args[4], 10, 64)
	out, root := args[5], args[6]
	var scheds [][]cstep
	if len(args) > 7 {
		if b, err := os.ReadFile(args[7]); err == nil {
			json.Unmarshal(b, &scheds)
		}
	}
	f, err := os.Create(out)
	if err != nil {
		fmt.Fprintln(os.Stderr, err)
		return 2
	}
	defer f.Close()
	enc := json.NewEncoder(f)
	hangs := 0
	for i := shard; i < nfree+nplace+len(scheds); i += nshards {
		if hangs >= 4 { // every hang is recorded (and is a violation); code that deadlocks costs tens of seconds per history
			break
		}
		var h *chist
		var err error
		fmt.Fprintf(os.Stderr, "C08-HIST %d\n", i)
		if i < nfree && i%3 != 0 {
			h, err = tailRun(i, seed, root)
		} else if i < nfree {
			h, err = freeRun(i, seed, root)
		} else if i < nfree+nplace && i%6 == 5 {
			h, err = readerTwoStage(i, seed, root)
		} else if i < nfree+nplace {
			h, err = placement(i, seed, root)
		} else {
			var drift bool
			h, drift, err = replayConcSchedule(i, scheds[i-nfree-nplace], root)
			if drift {
				fmt.Fprintf(os.Stderr, "C08-DRIFT %d\n", i)
			}
		}
		if err != nil {
			hangs++
			fmt.Fprintf(os.Stderr, "C08-HANG %d %v\n", i, err)
			enc.Encode(&chist{ID: i, Kind: "hang", What: err.Error(), Init: absState{Live: []MM{}}, Ops: []cop{{ID: 1, Op: "hang", Inv: 1, Ret: 2, Err: "Hang", S: []int64{}, Batch: []MM{}, Assigned: []int64{}, Msgs: []MM{}}}})
			continue
		}
		if len(h.Ops) > 62 {
			h.Ops = h.Ops[:62]
		}
		enc.Encode(h)
	}
	return 0
}

var reHistOK = regexp.MustCompile(`<<"HIST-OK", (\d+)>>`)

// judgeLin runs TraceLin over a file of histories and returns the ids that have no linearization.
func judgeLin(path, scratch string) ([]int, TLCRun) {
	abs, _ := filepath.Abs(path)
	run := runTLCOpts("TraceLin.tla", "TraceLin.cfg", 1, true, nil, []string{"TRACE=" + abs}, 30*time.Minute, scratch, []string{"-Dtlc2.tool.queue.IStateQueue=StateDeque"})
	if run.Infra != nil {
		return nil, run
	}
	if !strings.Contains(run.Out, `"LIN-DONE"`) {
		run.Infra = fmt.Errorf("TraceLin did not finish: %s", tail(run.Out, 30))
		return nil, run
	}
	for _, ln := range strings.Split(run.Out, "\n") {
		if strings.HasPrefix(ln, "Error:") {
			run.Infra = fmt.Errorf("TLC error in TraceLin: %s", tail(run.Out, 30))
			return nil, run
		}
	}
	ok := map[int]bool{}
	for _, m := range reHistOK.FindAllStringSubmatch(run.Out, -1) {
		id, _ := strconv.Atoi(m[1])
		ok[id] = true
	}
	lines, _ := readLines(path)
	var bad []int
	for _, ln := range lines {
		var h struct {
			ID int `json:"id"`
		}
		if json.Unmarshal([]byte(ln), &h) == nil && !ok[h.ID] {
			bad = append(bad, h.ID)
		}
	}
	return bad, run
}

// runC08 is the parent side.
func runC08(r *SeqRun) {
	self, err := os.Executable()
	if err != nil {
		r.infra("c08: %v", err)
		return
	}
	race := self + "-race"
	if _, err := os.Stat(race); err != nil {
		r.infra("c08: race-detector build of the harness not found (%s)", race)
		return
	}
	nfree, nplace := tierN(r.Tier, 1500, 90000), tierN(r.Tier, 2400, 200000) // two thirds of the free runs are tailing-consumer runs
	nshards := 14
	schedFile := filepath.Join(r.Scratch, "conc-schedules.json")
	stride := func(scheds [][]cstep, max int) [][]cstep { // seeded stride
		if len(scheds) <= max {
			return scheds
		}
		var sel [][]cstep
		step := float64(len(scheds)) / float64(max)
		for i := 0; i < max; i++ {
			sel = append(sel, scheds[int(float64(r.Seed%5)/5*step+float64(i)*step)%len(scheds)])
		}
		return sel
	}
	var all [][]cstep
	if scheds, nstates, err := concSchedulesFromSpec("ConcGen.tla", "concgen_q.cfg", r.Scratch, 20*time.Minute); err != nil {
		r.infra("KlevConc schedule generator: %v", err)
		return
	} else {
		all = stride(scheds, tierN(r.Tier, 1500, len(scheds)))
		r.GenStates, r.NGen = nstates, len(all)
		if r.Tier == "quick" { // the generator run is the bounded design-level run of the quick tier (same constants as conc_q.cfg)
			r.States += nstates
			r.Design = append(r.Design, map[string]any{"module": "ConcGen.tla (KlevConc.tla)", "cfg": "concgen_q.cfg", "distinct": nstates,
				"note": "KlevConc.tla exhaustive with QuiescentOK, HeadFlagOK and the linearization-point assertions; the same run emits one shortest schedule per distinct state for the replay"})
		}
	}
	// the lookups' walks (KlevConcK.tla): only the schedules that end inside or right after a lookup are of interest
	if scheds, nstates, err := concSchedulesFromSpec("ConcKGen.tla", "conckgen_q.cfg", r.Scratch, 20*time.Minute); err != nil {
		r.infra("KlevConcK schedule generator: %v", err)
		return
	} else {
		var ks [][]cstep
		for _, s := range scheds {
			if s[len(s)-1].P == "K" {
				ks = append(ks, s)
			}
		}
		ks = stride(ks, tierN(r.Tier, 1500, len(ks)))
		all = append(all, ks...)
		r.GenStates += nstates
		r.NGen += len(ks)
		r.Design = append(r.Design, map[string]any{"module": "ConcKGen.tla (KlevConcK.tla)", "cfg": "conckgen_q.cfg", "distinct": nstates, "schedules_replayed": len(ks),
			"note": "KlevConcK.tla exhaustive (the lookups' linearization assertions); one shortest schedule per distinct state whose last step is a lookup step, replayed through the pause points between reader objects"})
	}
	{
		b, _ := json.Marshal(all)
		os.WriteFile(schedFile, b, 0o644)
	}
	var wg sync.WaitGroup
	for s := 0; s < nshards; s++ {
		wg.Add(1)
		go func(s int) {
			defer wg.Done()
			out := filepath.Join(r.Scratch, fmt.Sprintf("lin-%02d.ndjson", s))
			cmd := exec.Command(race, "c08-worker", strconv.Itoa(s), strconv.Itoa(nshards), strconv.Itoa(nfree), strconv.Itoa(nplace),
				strconv.FormatInt(r.Seed, 10), out, r.Scratch, schedFile)
			cmd.Env = append(os.Environ(), "GORACE=halt_on_error=0")
			ob, err := cmd.CombinedOutput()
			serr := string(ob)
			r.mu.Lock()
			r.Drift += strings.Count(serr, "C08-DRIFT ")
			r.mu.Unlock()
			for _, ln := range strings.Split(serr, "\n") {
				if strings.HasPrefix(ln, "DRIFT-DETAIL") {
					fmt.Println(ln)
				}
			}
			if strings.Contains(serr, "WARNING: DATA RACE") {
				// the race detector's report is a verdict of its own (C08: "there is no data race")
				idx := strings.Index(serr, "WARNING: DATA RACE")
				hid := -1
				if m := regexp.MustCompile(`C08-HIST (\d+)`).FindAllStringSubmatch(serr[:idx], -1); len(m) > 0 {
					hid, _ = strconv.Atoi(m[len(m)-1][1])
				}
				end := idx + 4000
				if end > len(serr) {
					end = len(serr)
				}
				r.raceViolation(hid, serr[idx:end])
			} else if err != nil {
				r.infra("c08 worker %d: %v: %s", s, err, tail(serr, 15))
				return
			}
			lines, _ := readLines(out)
			r.mu.Lock()
			for _, ln := range lines {
				var h chist
				if json.Unmarshal([]byte(ln), &h) == nil {
					r.chists[h.ID] = ln
					r.Events += len(h.Ops)
					r.Counts[h.Kind]++
					r.NHist++
					r.Sigs[fmt.Sprintf("c8-%d-%s", h.ID, h.What)] = struct{}{}
					if len(r.Samples) < 3 {
						var m any
						json.Unmarshal([]byte(truncateJSON(ln)), &m)
						r.Samples = append(r.Samples, m)
					}
				}
			}
			r.mu.Unlock()
			bad, run := judgeLin(out, r.Scratch)
			if run.Infra != nil {
				r.infra("TraceLin shard %d: %v", s, run.Infra)
				return
			}
			r.mu.Lock()
			r.TraceSt += run.Distinct
			r.mu.Unlock()
			for _, id := range bad {
				r.linViolation(id)
			}
		}(s)
	}
	wg.Wait()
}

func (r *SeqRun) raceViolation(hid int, report string) {
	os.MkdirAll("/verif/replays", 0o755)
	p := fmt.Sprintf("/verif/replays/%s-seed%d-race-h%d.json", r.P.Prop, r.Seed, hid)
	b, _ := json.MarshalIndent(map[string]any{"property": r.P.Prop, "kind": "data race reported by the Go race detector", "history": hid,
		"seed": r.Seed, "tier": r.Tier, "report": report, "profile": r.P.Prop}, "", " ")
	os.WriteFile(p, b, 0o644)
	r.mu.Lock()
	r.Viol = append(r.Viol, Violation{Prop: r.P.Prop, Replay: p, Note: "data race"})
	r.mu.Unlock()
	fmt.Printf("VIOLATION property=%s replay=%s\n  DATA RACE in history %d: %s\n", r.P.Prop, p, hid, truncate(strings.ReplaceAll(report, "\n", " | "), 700))
}

// linViolation: history id has no linearization. It is re-judged alone (deterministic) before it is reported.
func (r *SeqRun) linViolation(id int) {
	r.mu.Lock()
	ln := r.chists[id]
	nv := len(r.Viol)
	r.mu.Unlock()
	if nv >= 40 {
		return
	}
	dir, _ := os.MkdirTemp(r.Scratch, "relin")
	defer os.RemoveAll(dir)
	path := filepath.Join(dir, "one.ndjson")
	writeLines(path, []string{ln})
	bad, run := judgeLin(path, r.Scratch)
	if run.Infra != nil {
		r.infra("re-judging history %d: %v", id, run.Infra)
		return
	}
	if len(bad) == 0 {
		r.infra("UNREPRODUCED: history %d was linearized when judged alone", id)
		return
	}
	os.MkdirAll("/verif/replays", 0o755)
	p := fmt.Sprintf("/verif/replays/%s-seed%d-h%d.json", r.P.Prop, r.Seed, id)
	b, _ := json.MarshalIndent(map[string]any{"property": r.P.Prop, "profile": r.P.Prop, "lin_history": json.RawMessage(ln),
		"note": "no order of these calls that is consistent with real time explains all results (TraceLin)"}, "", " ")
	os.WriteFile(p, b, 0o644)
	r.mu.Lock()
	r.Viol = append(r.Viol, Violation{Prop: r.P.Prop, Replay: p})
	r.mu.Unlock()
	var h chist
	json.Unmarshal([]byte(ln), &h)
	fmt.Printf("VIOLATION property=%s replay=%s\n  history %d (%s: %s) has no linearization\n", r.P.Prop, p, id, h.Kind, truncate(h.What, 300))
}
