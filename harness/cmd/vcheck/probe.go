package main

import (
	"crypto/sha256"
	"encoding/json"
	"fmt"
	"io"
	"os"
	"path/filepath"
	"strings"
	"time"
	"verif/refcodec"

	"github.com/klev-dev/klevdb"
)

// digest answers a fixed query sweep on an open log and returns the canonical list of answers.
// Stat comes first: it must work before any other call has touched (and lazily re-indexed) a segment.
func (x *Exec) digest(l klevdb.Log, keys []string) []string {
	var out []string
	add := func(q string, v ...any) {
		b, _ := json.Marshal(v)
		out = append(out, q+"="+string(b))
	}
	st, err := l.Stat()
	add("stat", errClass(err), st.Messages, st.Segments)
	next, err := l.NextOffset()
	add("next", errClass(err), next)
	for off := int64(-2); off <= next+1; off++ {
		for _, max := range []int64{1, 3} {
			n, ms, err := l.Consume(off, max)
			add(fmt.Sprintf("consume(%d,%d)", off, max), errClass(err), n, x.conv(ms))
		}
		m, err := l.Get(off)
		add(fmt.Sprintf("get(%d)", off), errClass(err), x.one(m, err))
	}
	for _, k := range keys {
		m, err := l.GetByKey(keyBytes[k])
		add("getbykey("+k+")", errClass(err), x.one(m, err))
		n, ms, err := l.ConsumeByKey(keyBytes[k], klevdb.OffsetOldest, 3)
		add("consumebykey("+k+")", errClass(err), n, x.conv(ms))
	}
	lo, hi := int64(-1), int64(1)
	if x.anyT {
		lo, hi = x.minT-1, x.maxT+1
	}
	if hi-lo > 60 {
		hi = lo + 60
	}
	if !x.h.Mono {
		hi = lo - 1 // time lookups are only defined (C10/C11) when times never decrease
	}
	for t := lo; t <= hi; t++ {
		m, err := l.GetByTime(time.UnixMicro(x.t0 + t))
		add(fmt.Sprintf("getbytime(%d)", t), errClass(err), x.one(m, err))
	}
	st2, err := l.Stat()
	add("stat2", errClass(err), st2.Messages, st2.Segments)
	return out
}

func firstDiff(a, b []string) string {
	for i := range a {
		if i >= len(b) {
			return "missing: " + a[i]
		}
		if a[i] != b[i] {
			return a[i] + "  VS  " + b[i]
		}
	}
	if len(b) > len(a) {
		return "extra: " + b[len(a)]
	}
	return ""
}

func copyDir(src, dst string) error {
	if err := os.MkdirAll(dst, 0o700); err != nil {
		return err
	}
	es, err := os.ReadDir(src)
	if err != nil {
		return err
	}
	for _, e := range es {
		if e.IsDir() || e.Name() == ".lock" {
			continue
		}
		in, err := os.Open(filepath.Join(src, e.Name()))
		if err != nil {
			return err
		}
		out, err := os.Create(filepath.Join(dst, e.Name()))
		if err != nil {
			in.Close()
			return err
		}
		_, err = io.Copy(out, in)
		in.Close()
		out.Close()
		if err != nil {
			return err
		}
	}
	return nil
}

// ixProbe (C11): with the log closed, compare the answers of the log reopened as it is with the answers
// of copies in which subsets of index files were removed, reopened read-write and read-only.
func (x *Exec) ixProbe(op *Op) {
	segs := x.layout()
	if len(segs) == 0 {
		// a directory without a log (a read-only first session): no index file to remove, and a read-write open of it
		// (which creates the first segment) is not comparable with a read-only one (which creates nothing)
		return
	}
	tmp := x.dir + "-probe"
	defer os.RemoveAll(tmp)
	o := x.cur
	o.Check, o.Recover, o.Eager, o.RO = false, false, false, false
	open := func(which []int64, ro bool) ([]string, string) {
		os.RemoveAll(tmp)
		if err := copyDir(x.dir, tmp); err != nil {
			return nil, "copy: " + err.Error()
		}
		for _, b := range which {
			os.Remove(filepath.Join(tmp, fmt.Sprintf("%020d.index", b)))
		}
		oo := o
		oo.RO = ro
		opts := x.options(oo)
		l, err := klevdb.Open(tmp, opts)
		if err != nil {
			return nil, "open: " + err.Error()
		}
		d := x.digest(l, x.obs.KeyQ)
		if err := l.Close(); err != nil {
			return d, "close: " + err.Error()
		}
		return d, ""
	}
	ref, e0 := open(nil, false)
	if e0 != "" {
		x.emit("same", map[string]any{"a": "reference", "b": e0, "what": "reference open", "diff": e0})
		return
	}
	var all []int64
	for _, s := range segs {
		all = append(all, s.Base)
	}
	subsets := [][]int64{all}
	for _, b := range all {
		subsets = append(subsets, []int64{b})
	}
	// seeded extra subsets
	for k := 0; k < op.Var && len(all) > 1; k++ {
		var sub []int64
		for i, b := range all {
			if (op.Arg>>(uint(i+k*7)%60))&1 == 1 {
				sub = append(sub, b)
			}
		}
		subsets = append(subsets, sub)
	}
	if len(subsets) > 8 {
		subsets = append(subsets[:2], subsets[len(subsets)-6:]...)
	}
	for _, sub := range subsets {
		for _, ro := range []bool{false, true} {
			d, e := open(sub, ro)
			ja, _ := json.Marshal(ref)
			jb, _ := json.Marshal(d)
			diff := firstDiff(ref, d)
			if e != "" {
				jb, diff = []byte(e), e
			}
			if sub == nil {
				sub = []int64{}
			}
			x.emit("same", map[string]any{"a": string(ja), "b": string(jb), "what": "index files removed", "removed": sub, "ro": ro, "diff": diff})
		}
	}
}

// backup (C20): Log.Backup (Var 0) or klevdb.Backup (Var 1) into the history's backup directory
// (Arg 1: start a fresh, empty target), then: source answers unchanged, target passes Check and opens
// to a log that answers the query sweep identically.
func (x *Exec) backup(op *Op) {
	if op.Arg == 1 || x.bdir == "" {
		x.bgen++
		x.bdir = fmt.Sprintf("%s-backup%d", x.dir, x.bgen)
		os.RemoveAll(x.bdir)
		if op.Var%2 == 0 {
			os.MkdirAll(x.bdir, 0o700) // Log.Backup needs the directory; klevdb.Backup creates it
		}
	}
	if op.Arg != 1 && (x.opi+x.bgen)%2 == 0 {
		standingClock(x.dir, x.bdir)
	}
	// cold (op.Var&2): the backup is the first call on the handle - no query has loaded (or rebuilt) anything yet
	cold := op.Var&2 != 0
	var before []string
	if !cold {
		before = x.digest(x.l, x.obs.KeyQ)
	}
	files0 := dirContentSig(x.dir)
	var err error
	if op.Var%2 == 0 {
		err = x.l.Backup(x.bdir)
	} else {
		err = klevdb.Backup(x.dir, x.bdir)
	}
	files1 := dirContentSig(x.dir)
	x.emit("backup", map[string]any{"err": errClass(err), "errs": errStr(err), "pkg": op.Var%2 == 1, "fresh": op.Arg == 1, "cold": cold})
	if err != nil {
		return
	}
	x.emit("same", map[string]any{"a": files0, "b": files1, "what": "source directory (names, sizes, bytes) unchanged by backup"})
	after := x.digest(x.l, x.obs.KeyQ)
	jb, _ := json.Marshal(after)
	if !cold {
		ja, _ := json.Marshal(before)
		x.emit("same", map[string]any{"a": string(ja), "b": string(jb), "what": "source unchanged by backup", "diff": firstDiff(before, after)})
	}
	// the target: Check, then open a copy of it (so that the target itself stays as Backup left it)
	cerr := klevdb.Check(x.bdir, klevdb.Options{KeyIndex: x.h.Keys, TimeIndex: x.h.Times})
	tmp := x.bdir + "-open"
	os.RemoveAll(tmp)
	defer os.RemoveAll(tmp)
	if e := copyDir(x.bdir, tmp); e != nil {
		x.emit("backupobs", map[string]any{"err": "Other", "errs": e.Error(), "check": errClass(cerr), "msgs": []MM{}, "next": -1})
		return
	}
	o := x.cur
	// Check recomputes index timestamps per segment; with a time index it is only defined for
	// times that never decrease (C01/C20 quantifier), otherwise it is not requested
	chk := !x.h.Times || x.h.Mono
	if !chk {
		cerr = nil
	}
	o.Check, o.Recover, o.Eager, o.RO = chk, false, false, false
	l2, oerr := klevdb.Open(tmp, x.options(o))
	if oerr != nil {
		x.emit("backupobs", map[string]any{"err": errClass(oerr), "errs": errStr(oerr), "check": errClass(cerr), "msgs": []MM{}, "next": -1})
		return
	}
	all, _, serr := scanLog(l2, 32)
	next, _ := l2.NextOffset()
	x.emit("backupobs", map[string]any{"err": serr, "errs": "", "check": errClass(cerr), "checks": errStr(cerr), "msgs": x.conv(all), "next": next})
	d2 := x.digest(l2, x.obs.KeyQ)
	l2.Close()
	jc, _ := json.Marshal(d2)
	x.emit("same", map[string]any{"a": string(jb), "b": string(jc), "what": "backup answers like the source", "diff": firstDiff(after, d2)})
}

// synth (C13): the directory is written by the independent reference ENCODER (not by klevdb):
// op.Batch = the messages, op.S = their offsets (strictly increasing), op.Segs = number of records per segment
// (a trailing 0 = an empty head segment), op.Var bits choose log version, index presence and index version per segment.
func (x *Exec) synth(op *Op) {
	os.MkdirAll(x.dir, 0o700)
	msgs := x.build(op.Batch)
	var all []MM
	pos := 0
	next := int64(0)
	if len(op.S) > 0 {
		next = op.S[len(op.S)-1] + 1
	}
	for si, n := range op.Segs {
		bits := op.Var >> (uint(si) * 3)
		ver := 1 + bits&1
		hasIx := bits&2 == 0
		ixver := ver
		if bits&4 != 0 {
			ixver = 3 - ver
		}
		var recs []refcodec.Rec
		base := next
		if n > 0 {
			base = op.S[pos]
		}
		p := int64(len(refcodec.LogHeader(ver)))
		for k := 0; k < n; k++ {
			m := msgs[pos]
			r := refcodec.Rec{Pos: p, Offset: op.S[pos], Micros: m.Time.UnixMicro(), Key: m.Key, Value: m.Value}
			r.Len = int64(len(refcodec.EncodeRec(ver, r.Offset, r.Micros, r.Key, r.Value)))
			p += r.Len
			recs = append(recs, r)
			mm := x.conv1(m)
			mm.Off = op.S[pos]
			all = append(all, mm)
			pos++
		}
		os.WriteFile(filepath.Join(x.dir, fmt.Sprintf("%020d.log", base)), refcodec.EncodeLog(ver, recs), 0o600)
		if hasIx {
			items := refcodec.DeriveIndex(recs, x.h.Times, x.h.Keys, 0)
			os.WriteFile(filepath.Join(x.dir, fmt.Sprintf("%020d.index", base)), refcodec.EncodeIndex(ixver, x.h.Times, x.h.Keys, items), 0o600)
		}
	}
	if all == nil {
		all = []MM{}
	}
	for _, m := range all {
		if !x.anyT || m.T < x.minT {
			x.minT = m.T
		}
		if !x.anyT || m.T > x.maxT {
			x.maxT = m.T
		}
		x.anyT = true
	}
	x.emit("synth", map[string]any{"msgs": all, "next": next, "segs": op.Segs, "var": op.Var})
}

// backupClosed (C20): klevdb.Backup of a directory that is not open (index files may be missing).
func (x *Exec) backupClosed(op *Op) {
	if op.Arg == 1 || x.bdir == "" {
		x.bgen++
		x.bdir = fmt.Sprintf("%s-backup%d", x.dir, x.bgen)
		os.RemoveAll(x.bdir)
	}
	if op.Arg != 1 && (x.opi+x.bgen)%2 == 0 {
		standingClock(x.dir, x.bdir)
	}
	err := klevdb.Backup(x.dir, x.bdir)
	x.emit("backup", map[string]any{"err": errClass(err), "errs": errStr(err), "pkg": true, "fresh": op.Arg == 1, "closed": true})
	if err != nil {
		return
	}
	chk := !x.h.Times || x.h.Mono
	var cerr error
	if chk {
		cerr = klevdb.Check(x.bdir, klevdb.Options{KeyIndex: x.h.Keys, TimeIndex: x.h.Times})
	}
	tmp := x.bdir + "-open"
	os.RemoveAll(tmp)
	defer os.RemoveAll(tmp)
	if e := copyDir(x.bdir, tmp); e != nil {
		x.emit("backupobs", map[string]any{"err": "Other", "errs": e.Error(), "check": errClass(cerr), "msgs": []MM{}, "next": -1})
		return
	}
	o := x.cur
	o.Check, o.Recover, o.Eager, o.RO = chk, false, false, false
	l2, oerr := klevdb.Open(tmp, x.options(o))
	if oerr != nil {
		x.emit("backupobs", map[string]any{"err": errClass(oerr), "errs": errStr(oerr), "check": errClass(cerr), "msgs": []MM{}, "next": -1})
		return
	}
	all, _, serr := scanLog(l2, 32)
	next, _ := l2.NextOffset()
	x.emit("backupobs", map[string]any{"err": serr, "errs": "", "check": errClass(cerr), "checks": errStr(cerr), "msgs": x.conv(all), "next": next})
	l2.Close()
}

// dirContentSig: every file of a directory by name, size and content hash (the lock file aside).
func dirContentSig(dir string) string {
	es, _ := os.ReadDir(dir)
	var sb strings.Builder
	for _, e := range es {
		if e.IsDir() || e.Name() == ".lock" {
			continue
		}
		b, _ := os.ReadFile(filepath.Join(dir, e.Name()))
		fmt.Fprintf(&sb, "%s:%d:%x ", e.Name(), len(b), sha256.Sum256(b))
	}
	return sb.String()
}

// standingClock (C20, after seeded change S144): a file system whose timestamps did not advance since the previous
// backup - every source file that the target already holds gets the target copy's modification time (which is the
// source's time as of that backup). The skip rule of the copy must not rely on the clock alone: KlevBackup.tla lets
// the logical clock stand still between two writes (negative control backup_no_size), this is the same on real files.
func standingClock(src, dst string) {
	es, err := os.ReadDir(src)
	if err != nil {
		return
	}
	for _, e := range es {
		if e.IsDir() || e.Name() == ".lock" {
			continue
		}
		if st, err := os.Stat(filepath.Join(dst, e.Name())); err == nil {
			os.Chtimes(filepath.Join(src, e.Name()), st.ModTime(), st.ModTime())
		}
	}
}
