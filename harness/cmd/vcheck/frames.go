package main

import (
	"bytes"
	"fmt"
	"math/rand"
	"os"
	"path/filepath"
	"sync"
	"time"

	"github.com/klev-dev/klevdb"

	"verif/refcodec"
)

// C07: Recover / Check on damaged head segments, exhaustive on bytes.

type headImage struct {
	ver         int
	times, keys bool
	log, idx    []byte
	nrecs       int
	recEnds     []int64 // end positions of the records
	name        string
	opts        klevdb.Options
	large       bool // holds a record beyond 64 KiB: damage is enumerated around the record boundaries only
}

// buildHead writes a single head segment with the real writer and returns its bytes.
func buildHead(root string, id int, ver int, times, keys bool, nrecs int, rng *rand.Rand) (*headImage, error) {
	return buildHeadL(root, id, ver, times, keys, nrecs, -1, rng)
}

// buildHeadL: largeAt >= 0 gives that record a body beyond 64 KiB (the readers' large-record path).
func buildHeadL(root string, id int, ver int, times, keys bool, nrecs int, largeAt int, rng *rand.Rand) (*headImage, error) {
	dir := filepath.Join(root, fmt.Sprintf("fh-%d", id))
	os.MkdirAll(dir, 0o700)
	defer os.RemoveAll(dir)
	opts := klevdb.Options{KeyIndex: keys, TimeIndex: times, Rollover: 1 << 30}
	if ver == 1 {
		opts.Version.NewSegmentsVersion = klevdb.V1
	} else {
		opts.Version.NewSegmentsVersion = klevdb.V2
	}
	l, err := klevdb.Open(dir, opts)
	if err != nil {
		return nil, err
	}
	t := int64(1700000000000000)
	anyOrder := id%2 == 0 // every other head has times in arbitrary order (a single head built in one session: its index is the running maximum)
	for i := 0; i < nrecs; i++ {
		t += int64(rng.Intn(3))
		if anyOrder {
			t += int64(rng.Intn(200)) - 110
		}
		m := klevdb.Message{Key: keyBytes[pick(rng, []string{"n", "a", "b", "g", "h"})], Time: time.UnixMicro(t).UTC()}
		if rng.Intn(4) > 0 {
			m.Value = valueBytes(i+1, pick(rng, []int{1, 7, 30, 90}))
		}
		if i == largeAt {
			m.Value = valueBytes(i+1, pick(rng, []int{65505, 66000, 70000}))
		}
		if _, err := l.Publish([]klevdb.Message{m}); err != nil {
			return nil, err
		}
	}
	if err := l.Close(); err != nil {
		return nil, err
	}
	h := &headImage{ver: ver, times: times, keys: keys, nrecs: nrecs, opts: opts, large: largeAt >= 0}
	h.log, _ = os.ReadFile(filepath.Join(dir, fmt.Sprintf("%020d.log", 0)))
	h.idx, _ = os.ReadFile(filepath.Join(dir, fmt.Sprintf("%020d.index", 0)))
	lf := refcodec.ParseLog(h.log, 0)
	if lf.Junk != "" || len(lf.Recs) != nrecs {
		return nil, fmt.Errorf("reference parser does not accept the pristine head: %q %d/%d", lf.Junk, len(lf.Recs), nrecs)
	}
	for _, r := range lf.Recs {
		h.recEnds = append(h.recEnds, r.Pos+r.Len)
	}
	h.name = fmt.Sprintf("v%d-t%v-k%v-n%d", ver, times, keys, nrecs)
	return h, nil
}

type frameCase struct {
	head     *headImage
	log, idx []byte // idx == nil: index file absent
	what     string
}

func clone(b []byte) []byte { return append([]byte(nil), b...) }

// cases enumerates the damage of the C07 quantifier for one head image.
func (h *headImage) cases(rng *rand.Rand, thorough bool) []frameCase {
	var cs []frameCase
	add := func(log, idx []byte, what string, a ...any) {
		cs = append(cs, frameCase{head: h, log: log, idx: idx, what: fmt.Sprintf(what, a...)})
	}
	n := len(h.log)
	// a head with a large record: every position within 48 bytes of a record boundary (and of the file header),
	// every 997th byte otherwise
	near := func(pos int) bool {
		if !h.large {
			return true
		}
		if pos < 64 || pos%997 == 0 {
			return true
		}
		for _, e := range h.recEnds {
			if d := int64(pos) - e; d > -48 && d < 48 {
				return true
			}
		}
		return false
	}
	add(clone(h.log), clone(h.idx), "undamaged")
	add(clone(h.log), nil, "index missing")
	hdr := 0
	if h.ver == 2 {
		hdr = 8
	}
	// truncation at every length: 0, or at/after the file header
	add([]byte{}, clone(h.idx), "truncate log to 0")
	for cut := 8; cut < n; cut++ {
		if !near(cut) {
			continue
		}
		add(clone(h.log[:cut]), clone(h.idx), "truncate log to %d", cut)
		if thorough || cut%5 == 0 {
			add(clone(h.log[:cut]), nil, "truncate log to %d, index missing", cut)
		}
	}
	if h.ver == 2 {
		// every single-byte corruption position after the file header
		for pos := hdr; pos < n; pos++ {
			if !near(pos) {
				continue
			}
			b := clone(h.log)
			b[pos] ^= byte(1 << uint(rng.Intn(8)))
			add(b, clone(h.idx), "flip a bit of log byte %d", pos)
			if thorough {
				b2 := clone(h.log)
				b2[pos] = ^b2[pos]
				add(b2, clone(h.idx), "invert log byte %d", pos)
			}
		}
		// zero / 0xFF / random tails of every length up to two records
		twoRecs := 2 * (36 + 20 + 90)
		if !thorough {
			twoRecs = 36 + 20 + 40
		}
		for tl := 1; tl <= twoRecs; tl++ {
			if h.large && tl > 40 && tl%9 != 0 {
				continue
			}
			for k, fill := range []string{"zero", "ff", "random"} {
				if !thorough && tl > 40 && (tl+k)%3 != 0 {
					continue
				}
				tailb := make([]byte, tl)
				switch fill {
				case "ff":
					for i := range tailb {
						tailb[i] = 0xFF
					}
				case "random":
					rng.Read(tailb)
				}
				// after all records, and (sampled) after a shorter valid prefix
				add(append(clone(h.log), tailb...), clone(h.idx), "%s tail of %d bytes", fill, tl)
				if len(h.recEnds) > 1 && (thorough || tl%7 == 0) {
					cut := h.recEnds[rng.Intn(len(h.recEnds)-1)]
					add(append(clone(h.log[:cut]), tailb...), clone(h.idx), "%s tail of %d bytes after a cut at %d", fill, tl, cut)
				}
			}
		}
	}
	// index damage on an undamaged log
	for cut := 0; cut < len(h.idx); cut++ {
		add(clone(h.log), clone(h.idx[:cut]), "truncate index to %d", cut)
	}
	for pos := 0; pos < len(h.idx); pos++ {
		b := clone(h.idx)
		b[pos] ^= byte(1 << uint(rng.Intn(8)))
		add(clone(h.log), b, "flip a bit of index byte %d", pos)
	}
	isz := int(refcodec.ItemSize(h.times, h.keys))
	if len(h.idx) >= isz {
		extra := append(clone(h.idx), h.idx[len(h.idx)-isz:]...)
		add(clone(h.log), extra, "one extra index item")
		add(clone(h.log), append(clone(extra), h.idx[len(h.idx)-isz:]...), "two extra index items")
	}
	// combined: damaged log with damaged index (sampled)
	for k := 0; k < 20 && h.ver == 2 && n > hdr+1; k++ {
		b := clone(h.log)
		b[hdr+rng.Intn(n-hdr)] ^= 0x10
		var ib []byte
		if len(h.idx) > 0 {
			ib = clone(h.idx[:rng.Intn(len(h.idx))])
		}
		add(b, ib, "log bit flip + truncated index (%d)", k)
	}
	return cs
}

type frameProj struct {
	N    int    `json:"n"`
	Junk string `json:"junk"`
	Ix   string `json:"ix"`
	recs []refcodec.Rec
}

func projectHead(dir string, times, keys bool) (frameProj, []byte, []byte) {
	lb, _ := os.ReadFile(filepath.Join(dir, fmt.Sprintf("%020d.log", 0)))
	ib, ierr := os.ReadFile(filepath.Join(dir, fmt.Sprintf("%020d.index", 0)))
	lf := refcodec.ParseLog(lb, 0)
	p := frameProj{N: len(lf.Recs), Junk: lf.Junk, recs: lf.Recs}
	if p.Junk == "" {
		p.Junk = "none"
	}
	if p.Junk == "header" {
		p.Junk = "badLen" // unrecognisable start of file: not reachable inside the C07 quantifier
	}
	switch {
	case ierr != nil:
		p.Ix = "absent"
		ib = nil
	default:
		ix := refcodec.ParseIndex(ib, 0, times, keys)
		der := refcodec.DeriveIndex(lf.Recs, times, keys, 0)
		switch {
		case ix.Junk != "":
			p.Ix = "unreadable"
		case len(ix.Items) == len(der) && func() bool {
			for i := range der {
				if ix.Items[i] != der[i] {
					return false
				}
			}
			return true
		}():
			p.Ix = "derived"
		default:
			p.Ix = "differs"
		}
	}
	return p, lb, ib
}

func sameRecs(a, b []refcodec.Rec) bool {
	if len(a) != len(b) {
		return false
	}
	for i := range a {
		if a[i].Offset != b[i].Offset || a[i].Micros != b[i].Micros || !bytes.Equal(a[i].Key, b[i].Key) || !bytes.Equal(a[i].Value, b[i].Value) {
			return false
		}
	}
	return true
}

func errKind(err error) string {
	if err == nil {
		return ""
	}
	return "Corrupted"
}

// runFrameCase: Check, Recover, Check, Recover again, append, Check.
func runFrameCase(c frameCase, dir string, hid int, tw *TraceWriter) {
	os.RemoveAll(dir)
	os.MkdirAll(dir, 0o700)
	defer os.RemoveAll(dir)
	os.WriteFile(filepath.Join(dir, fmt.Sprintf("%020d.log", 0)), c.log, 0o600)
	if c.idx != nil {
		os.WriteFile(filepath.Join(dir, fmt.Sprintf("%020d.index", 0)), c.idx, 0o600)
	}
	emit := func(ev string, m map[string]any) {
		m["ev"], m["hid"], m["what"], m["head"] = ev, hid, c.what, c.head.name
		tw.Emit(m)
	}
	defer func() {
		if r := recover(); r != nil {
			emit("panic", map[string]any{"what2": fmt.Sprint(r)})
		}
	}()
	opts := klevdb.Options{KeyIndex: c.head.keys, TimeIndex: c.head.times}
	before, lb0, ib0 := projectHead(dir, c.head.times, c.head.keys)
	cerr := klevdb.Check(dir, opts)
	emit("check", map[string]any{"f": before, "err": errKind(cerr), "errs": errStr(cerr)})
	rerr := klevdb.Recover(dir, opts)
	after, lb1, ib1 := projectHead(dir, c.head.times, c.head.keys)
	stale := projectDir(dir, c.head.times, c.head.keys).Stale
	emit("recover", map[string]any{"before": before, "after": after, "err": errKind(rerr), "errs": errStr(rerr),
		"recsSame": sameRecs(before.recs, after.recs) && stale == 0, "logSame": bytes.Equal(lb0, lb1), "ixSame": bytes.Equal(ib0, ib1) && (ib0 == nil) == (ib1 == nil)})
	if rerr != nil {
		return
	}
	cerr = klevdb.Check(dir, opts)
	emit("checkafter", map[string]any{"stage": "recover", "err": errKind(cerr), "errs": errStr(cerr)})
	// recovering again changes nothing
	rerr = klevdb.Recover(dir, opts)
	again, lb2, ib2 := projectHead(dir, c.head.times, c.head.keys)
	emit("recover", map[string]any{"before": after, "after": again, "err": errKind(rerr), "errs": errStr(rerr),
		"recsSame": sameRecs(after.recs, again.recs), "logSame": bytes.Equal(lb1, lb2), "ixSame": bytes.Equal(ib1, ib2) && (ib1 == nil) == (ib2 == nil)})
	// append and check again
	o2 := c.head.opts
	o2.Check = true
	l, err := klevdb.Open(dir, o2)
	if err != nil {
		emit("checkafter", map[string]any{"stage": "open", "err": "Corrupted", "errs": err.Error()})
		return
	}
	_, perr := l.Publish([]klevdb.Message{{Key: []byte("after"), Value: []byte("recover"), Time: time.UnixMicro(1800000000000000)}})
	cl := l.Close()
	if perr != nil || cl != nil {
		emit("checkafter", map[string]any{"stage": "append", "err": "Corrupted", "errs": fmt.Sprint(perr, cl)})
		return
	}
	cerr = klevdb.Check(dir, opts)
	emit("checkafter", map[string]any{"stage": "append", "err": errKind(cerr), "errs": errStr(cerr)})
}

// runFrames is the C07 driver (Extra of its profile).
func runFrames(r *SeqRun) {
	thorough := r.Tier == "thorough"
	rng := rand.New(rand.NewSource(r.Seed))
	var all []frameCase
	id := 0
	nheads := 2
	if thorough {
		nheads = 120
	}
	for hi := 0; hi < nheads; hi++ {
		for cfg := 0; cfg < 4; cfg++ {
			for _, ver := range []int{2, 1} {
				n := 3
				if thorough {
					n = 2 + rng.Intn(5)
				}
				id++
				h, err := buildHead(r.Scratch, id, ver, cfg&2 == 2, cfg&1 == 1, n, rng)
				if err != nil {
					r.infra("build head: %v", err)
					return
				}
				all = append(all, h.cases(rng, thorough)...)
			}
		}
	}
	// heads with a record beyond 64 KiB, as the last record and in the middle (V2 and V1, two index configurations)
	nlarge := 1
	if thorough {
		nlarge = 8
	}
	for li := 0; li < nlarge; li++ {
		for _, ver := range []int{2, 1} {
			for _, at := range []int{2, 1} {
				id++
				h, err := buildHeadL(r.Scratch, id, ver, li%2 == 0, li%2 == 1, 3, at, rng)
				if err != nil {
					r.infra("build large head: %v", err)
					return
				}
				all = append(all, h.cases(rng, false)...)
			}
		}
	}
	workers := 16
	var wg sync.WaitGroup
	for w := 0; w < workers; w++ {
		wg.Add(1)
		go func(w int) {
			defer wg.Done()
			path := filepath.Join(r.Scratch, fmt.Sprintf("trace-frm-%02d.ndjson", w))
			tw, err := NewTraceWriter(path, r.P.KF)
			if err != nil {
				r.infra("trace writer: %v", err)
				return
			}
			for i := w; i < len(all); i += workers {
				tw.Emit(map[string]any{"ev": "reset", "hid": i})
				runFrameCase(all[i], filepath.Join(r.Scratch, fmt.Sprintf("fc-%d", w)), i, tw)
			}
			tw.Close()
			r.mu.Lock()
			r.shards = append(r.shards, path)
			r.Events += tw.n
			for k, v := range tw.counts {
				r.Counts[k] += v
			}
			r.mu.Unlock()
		}(w)
	}
	wg.Wait()
	r.mu.Lock()
	for i, c := range all {
		r.fcases[i] = c
		r.Sigs[fmt.Sprintf("%s|%s", c.head.name, c.what)] = struct{}{}
	}
	r.NHist += len(all)
	r.mu.Unlock()
}

type frameCaseJSON struct {
	Ver   int    `json:"ver"`
	Times bool   `json:"times"`
	Keys  bool   `json:"keys"`
	Log   []byte `json:"log"`
	Idx   []byte `json:"idx"`
	NoIdx bool   `json:"noidx"`
	What  string `json:"what"`
	Head  string `json:"head"`
}

func (c frameCase) toJSON() *frameCaseJSON {
	return &frameCaseJSON{Ver: c.head.ver, Times: c.head.times, Keys: c.head.keys, Log: c.log, Idx: c.idx, NoIdx: c.idx == nil, What: c.what, Head: c.head.name}
}

func (j *frameCaseJSON) toCase() frameCase {
	opts := klevdb.Options{KeyIndex: j.Keys, TimeIndex: j.Times, Rollover: 1 << 30}
	if j.Ver == 1 {
		opts.Version.NewSegmentsVersion = klevdb.V1
	} else {
		opts.Version.NewSegmentsVersion = klevdb.V2
	}
	h := &headImage{ver: j.Ver, times: j.Times, keys: j.Keys, name: j.Head, opts: opts}
	c := frameCase{head: h, log: j.Log, idx: j.Idx, what: j.What}
	if j.NoIdx {
		c.idx = nil
	} else if c.idx == nil {
		c.idx = []byte{}
	}
	if c.log == nil {
		c.log = []byte{}
	}
	return c
}
