package main

import (
	"encoding/json"
	"os"
	"sort"
	"strings"
	"time"
)

var allRollovers = []int64{1, 5, 8, 9, 40, 60, 90, 150, 300, 700, 5000, 0}
var smallKeys = []string{"n", "a", "b", "g"}
var midKeys = []string{"n", "a", "b", "c", "d", "e", "g", "h", "i", "j", "m"}
var vlens = []int{0, 1, 3, 8, 20, 20, 40, 120, 300}

func baseGen() GenParams {
	return GenParams{
		Steps: 24, MaxBatch: 5, KeyPool: midKeys, VLens: vlens, TimeMode: "any", Rollovers: allRollovers,
		Versions: true, ChkRec: true, RmIndex: true, IndexCfg: -1, Tomb: 15, ROPct: 20,
		WPublish: 45, WDelete: 18, WDeleteMulti: 6, WReopen: 10, WGC: 3, WSync: 2, WTrim: 3, WCompact: 3,
		TrimKinds: []string{"offset", "count", "age"}, CompactKinds: []string{"updates", "deletes"},
		BigEvery: 9, LargeEvery: 11,
	}
}

func tierN(tier string, quick, thorough int) int {
	if tier == "thorough" {
		return thorough
	}
	return quick
}

func kfWhat(id string) string {
	if k, ok := knownFindings[id]; ok {
		return id + ": " + k
	}
	return id
}

var knownFindings = map[string]string{}
var knownFindingProp = map[string]string{}

// loadKnownFindings reads /verif/known_findings.json (read-only at run time): only status=open entries are enabled.
func loadKnownFindings() {
	path := os.Getenv("VERIF_KNOWN_FINDINGS")
	if path == "" {
		path = "/verif/known_findings.json"
	}
	b, err := os.ReadFile(path)
	if err != nil {
		return
	}
	var kf struct {
		Findings []struct {
			ID, Status, Property, What string
		} `json:"findings"`
	}
	if json.Unmarshal(b, &kf) != nil {
		return
	}
	for _, f := range kf.Findings {
		if f.Status == "open" {
			knownFindings[f.ID] = f.What
			knownFindingProp[f.ID] = f.Property
		}
	}
}

func openKF(prop string) []string {
	out := []string{}
	for id, p := range knownFindingProp {
		for _, q := range strings.Split(p, ",") {
			if strings.TrimSpace(q) == prop {
				out = append(out, id)
			}
		}
	}
	sort.Strings(out)
	return out
}

func tierS(tier, q, t string) string {
	if tier == "thorough" {
		return t
	}
	return q
}

func segDesign(tier, fam string) []DesignRun {
	d := []DesignRun{{Module: "MCKlevSeg.tla", Cfg: tierS(tier, "seg_"+fam+"_q.cfg", "seg_"+fam+"_t.cfg"), Workers: 16,
		Timeout: time.Duration(tierN(tier, 5, 40)) * time.Minute, Note: "KlevSeg bounded exhaustive, property predicates as invariants"}}
	if tier == "thorough" && fam == "core" {
		d = append(d, DesignRun{Module: "MCKlevSeg.tla", Cfg: "seg_opts_t.cfg", Workers: 16, Timeout: 40 * time.Minute,
			Note: "KlevSeg, wide configuration: every Open option combination, both versions, index removal, migration, read-only"})
	}
	return d
}

func segGen(tier, fam string, keys, times bool) *GenSpec {
	return &GenSpec{Module: "Gen.tla", Cfg: tierS(tier, "gen_"+fam+"_q.cfg", "gen_"+fam+"_t.cfg"), Max: tierN(tier, 2500, 60000),
		Timeout: time.Duration(tierN(tier, 5, 30)) * time.Minute, Keys: keys, Times: times}
}

func seqProfile(prop, tier string) *SeqProfile {
	p := seqProfile0(prop, tier)
	if p == nil {
		return nil
	}
	p.KF = openKF(prop)
	searchDesign := DesignRun{Module: "Search.tla", Cfg: tierS(tier, "search_q.cfg", "search_t.cfg"), Workers: 4, Timeout: 15 * time.Minute,
		Note: "Search.tla: literal transcriptions of the binary searches = their declarative meaning for all small arrays and probes"}
	searchExtra := func(fns ...string) func(*SeqRun) {
		return func(r *SeqRun) {
			if r.Tier == "thorough" {
				runSearchCases(r, fns, 10, 11, 5)
			} else {
				runSearchCases(r, fns, 7, 8, 5)
			}
		}
	}
	switch prop {
	case "C03":
		p.Extra = searchExtra("index.Consume", "segment.Consume")
	case "C04":
		p.Extra = searchExtra("index.Get", "segment.Get")
	case "C10":
		p.Extra = searchExtra("index.Time")
	}
	switch prop {
	case "C01", "C02", "C03", "C04", "C12":
		p.Design, p.GenSpec = segDesign(tier, "core"), segGen(tier, "core", false, false)
	case "C09":
		p.Design, p.GenSpec = segDesign(tier, "keys"), segGen(tier, "keys", true, false)
	case "C10":
		p.Design, p.GenSpec = segDesign(tier, "times"), segGen(tier, "times", false, true)
	}
	if prop == "C03" || prop == "C04" || prop == "C10" {
		p.Design = append(p.Design, searchDesign)
	}
	ops := func(cfg string, min int, note string) DesignRun {
		return DesignRun{Module: "KlevSegOps.tla", Cfg: cfg, Workers: 16, Timeout: time.Duration(min) * time.Minute, Note: note}
	}
	seg := func(cfg string, min int, note string) DesignRun {
		return DesignRun{Module: "MCKlevSeg.tla", Cfg: cfg, Workers: 16, Timeout: time.Duration(min) * time.Minute, Note: note}
	}
	bk := func(cfg string, min int, expect, note string) DesignRun {
		return DesignRun{Module: "KlevBackup.tla", Cfg: cfg, Workers: 16, Timeout: time.Duration(min) * time.Minute, Note: note, Expect: expect}
	}
	switch prop {
	case "C11":
		p.Design = []DesignRun{seg(tierS(tier, "seg_index_q.cfg", "seg_index_t.cfg"), 40,
			"KlevSeg with index-file removal, lazy rebuild (also by read-only handles), Check / Recover options, both versions, times {1,2} in any order: IndexDerived (file = derived index when times never decrease), IxRunInv (running maximum from a carried start otherwise), IndexLen, and every query invariant in every state")}
	case "C17":
		p.Design = []DesignRun{seg(tierS(tier, "seg_versions_q.cfg", "seg_versions_t.cfg"), 40,
			"KlevSeg with Migrate, EagerVersionMigrate, KeepRewriteVersion and NewSegmentsVersion drawn at every open: Fidelity / NextDerivable / query invariants in every state, VersionRules (VersionsOK on every step: the predicate the trace specification applies to the real layouts), MigrateRules (content unchanged, twice = once)")}
	case "C13":
		p.Design = []DesignRun{seg(tierS(tier, "seg_versions_q.cfg", "seg_opts_t.cfg"), 40,
			"the Stat part of C13 at design level: StatInv / real byte sizes of both format versions in every state (the byte layouts themselves are decided by the reference codec, not by a model)")}
	case "C20":
		p.Design = []DesignRun{
			bk(tierS(tier, "backup_q.cfg", "backup_t.cfg"), 40, "", "KlevBackup.tla: the per-file copy loop with the size+mtime skip rule over KlevSeg's directory, a clock that may stand still, index removal: BackupExact / BackupOpensSame after every backup under the append-only premise"),
			bk("backup_versions_t.cfg", 60, "", "thorough-only: the same with both format versions"),
			bk("backup_no_size.cfg", 10, "BackupExact", "negative control: skipping on the modification time alone is refuted by a clock that stands still"),
			bk("backup_no_premise.cfg", 10, "BackupExact", "negative control: without the append-only premise a Delete between two backups leaves a stale target"),
			bk("backup_no_ixremove.cfg", 10, "BackupExact", "negative control: the behaviour before the repair F05 (a missing source index keeps a stale target index)")}
	case "C15":
		p.Design = []DesignRun{
			ops(tierS(tier, "ops_trim_q.cfg", "ops_trim_t.cfg"), 30, "KlevSegOps: FindBy* transcriptions + DeleteMulti loop against FindBy*OK / TrimApplied in every state, time index on"),
			ops(tierS(tier, "ops_trim_notimes_q.cfg", "ops_trim_notimes_t.cfg"), 30, "the same without a time index (FindByAge falls back to NextOffset)")}
	case "C16":
		p.Design = []DesignRun{ops(tierS(tier, "ops_compact_q.cfg", "ops_compact_t.cfg"), 40,
			"KlevSegOps: FindUpdates / FindDeletes transcriptions + DeleteMulti loop against CompactUpdatesOK / CompactDeletesOK in every state (keys n,a,b, tombstones, times {1,2} in any order)")}
	}
	return p
}

func seqProfile0(prop, tier string) *SeqProfile {
	g := baseGen()
	switch prop {
	case "C01":
		g.TimeMode = "any"
		return &SeqProfile{Prop: prop, Gen: g, NRandom: tierN(tier, 400, 40000), Module: "TraceAbs.tla", Cfg: "TraceAbs.cfg",
			Obs: Obs{Scan: true, Next: true, Maxes: []int64{1, 2, 3, 32}, JudgeOpen: true},
			Hist: func(id int, seed int64) *History {
				gg := g
				gg.Epoch0 = id%10 == 8 // times around the Unix epoch itself (negative microsecond values, with nanosecond digits)
				if id%10 == 9 {        // bodies beyond 64 KiB (the reader's large-record path), several per segment and per scan batch
					gg.VLens = []int{66000, 66000, 70000, 65505, 3, 20, 0}
					gg.Rollovers = []int64{150000, 400000, 1000}
					gg.Steps, gg.MaxBatch = 12, 3
				}
				return genHistory(id, seed, gg)
			},
			Rule: "C01: after every step of every history the full cursor scan must equal the abstract live sequence.",
		}
	case "C02":
		g.WDelete, g.WDeleteMulti, g.WReopen = 25, 8, 16
		return &SeqProfile{Prop: prop, Gen: g, NRandom: tierN(tier, 400, 40000), Module: "TraceAbs.tla", Cfg: "TraceAbs.cfg",
			Obs:  Obs{Next: true, JudgePublish: true, JudgeLayout: true, JudgeOpen: true},
			Rule: "C02: every Publish result (returned offset, written-back offsets), every NextOffset/Sync result after every step and reopen, and the next offset re-derivable from the newest segment file.",
		}
	case "C03":
		g.WTrim, g.WCompact = 1, 1
		return &SeqProfile{Prop: prop, Gen: g, NRandom: tierN(tier, 150, 8000), Module: "TraceAbs.tla", Cfg: "TraceAbs.cfg",
			Obs:  Obs{Consume: true, Scan: true, Maxes: []int64{1, 2, 3, 7, 40}, Dense: tier == "thorough"},
			Rule: "C03: Consume for every offset in [-5, next+2] x maxCount in {1,2,3,7,40} after every step, plus the cursor iteration.",
		}
	case "C04":
		g.WTrim, g.WCompact = 1, 1
		return &SeqProfile{Prop: prop, Gen: g, NRandom: tierN(tier, 300, 15000), Module: "TraceAbs.tla", Cfg: "TraceAbs.cfg",
			Obs:  Obs{Get: true, Consume: true, Maxes: []int64{1}, Dense: true},
			Rule: "C04: Get for every offset in [0, next+2] and both relative offsets after every step; Consume(off,1) is recorded next to it so that agreement is implied by both being judged against the same abstract state.",
		}
	case "C09":
		g.IndexCfg = -1
		g.KeyPool = []string{"n", "a", "b", "c", "e", "f", "g", "l"}
		q := []string{"n", "a", "b", "c", "d", "e", "f", "g", "l", "p"}
		return &SeqProfile{Prop: prop, Gen: g, NRandom: tierN(tier, 200, 6000), Module: "TraceAbs.tla", Cfg: "TraceAbs.cfg",
			Obs: Obs{Key: true, KeyQ: q, Maxes: []int64{1, 2, 40}},
			Hist: func(id int, seed int64) *History {
				gg := g
				gg.IndexCfg = []int{1, 1, 3, 3, 0, 2}[id%6]
				return genHistory(id, seed, gg)
			},
			Rule: "C09: GetByKey/OffsetByKey for every key of the query set (incl. absent keys colliding with present ones) and ConsumeByKey for every cursor offset, after every step; keys a/b, c/d, e/f are real FNV-1a-64 collisions.",
		}
	case "C10":
		g.TimeMode = "mono"
		return &SeqProfile{Prop: prop, Gen: g, NRandom: tierN(tier, 250, 15000), Module: "TraceAbs.tla", Cfg: "TraceAbs.cfg",
			Obs: Obs{Time: true},
			Hist: func(id int, seed int64) *History {
				gg := g
				gg.IndexCfg = []int{2, 3, 2, 3, 0, 1}[id%6]
				gg.Epoch0 = id%2 == 1 // half of the histories use times next to the Unix epoch (absolute values smaller than the offsets)
				if id%5 == 4 {        // long segments (dozens of messages each, long runs of equal times): out of reach of the small scope
					gg.Rollovers = []int64{4000, 100000}
					gg.MaxBatch, gg.WPublish, gg.WDelete, gg.WDeleteMulti = 8, 70, 8, 2
					gg.VLens = []int{0, 1, 3, 8}
				}
				return genHistory(id, seed, gg)
			},
			Rule: "C10: GetByTime/OffsetByTime at every microsecond from 2 before the first to 2 after the last published time, after every step; times never decrease and contain equal runs.",
		}
	case "C12":
		g.WDelete, g.WDeleteMulti, g.WPublish = 30, 12, 40
		return &SeqProfile{Prop: prop, Gen: g, NRandom: tierN(tier, 400, 40000), Module: "TraceAbs.tla", Cfg: "TraceAbs.cfg",
			Obs: Obs{Scan: true, JudgeDelete: true, Maxes: []int64{3, 32}},
			Hist: func(id int, seed int64) *History {
				if id%100 == 99 {
					return genHugeHistory(id, seed)
				}
				return genHistory(id, seed, g)
			},
			Rule: "C12: every Delete/DeleteMulti result (set, content, size, error) judged, followed by a full scan.",
		}
	case "C11":
		g.IxProbe, g.IxProbeExtra = true, tierN(tier, 1, 4)
		g.WReopen = 12
		g.Steps = 20
		q := []string{"n", "a", "b", "c", "g"}
		return &SeqProfile{Prop: prop, Gen: g, NRandom: tierN(tier, 250, 20000), Module: "TraceAbs.tla", Cfg: "TraceAbs.cfg",
			Obs: Obs{JudgeLayout: true, KeyQ: q, JudgeOpen: true},
			Hist: func(id int, seed int64) *History {
				gg := g
				if id%2 == 0 {
					gg.TimeMode = "mono"
				}
				return genHistory(id, seed, gg)
			},
			Rule: "C11: at every close every segment is projected by the reference codec (index file = index derived from the log file; timestamps when times never decrease); then the directory is copied and reopened rw and ro with all / each single / seeded subsets of index files removed and the answers to a fixed query sweep (Stat first) are compared with the unmodified copy.",
		}
	case "C20":
		g.WBackup = 22
		g.ROPct = 0
		g.Versions = false // (migration between backups is not "only appended to")
		g.WPublish = 60
		q := []string{"n", "a", "b", "g"}
		return &SeqProfile{Prop: prop, Gen: g, NRandom: tierN(tier, 300, 150000), Module: "TraceAbs.tla", Cfg: "TraceAbs.cfg",
			Obs: Obs{KeyQ: q},
			Hist: func(id int, seed int64) *History {
				gg := g
				if id%2 == 0 {
					gg.TimeMode = "mono"
				}
				return genHistory(id, seed, gg)
			},
			Rule: "C20: every Log.Backup / klevdb.Backup call (fresh target, or repeated into the same target after publish-only steps) judged: no error, source answers unchanged, target passes Check, opens, scans to the abstract live sequence with the same NextOffset and answers the query sweep like the source.",
		}
	case "C08":
		return &SeqProfile{Prop: prop, NRandom: 0, Module: "TraceLin.tla", Cfg: "TraceLin.cfg",
			Design: []DesignRun{{Module: "KlevConc.tla", Cfg: tierS(tier, "conc_q.cfg", "conc_t.cfg"), Workers: 16, Timeout: 20 * time.Minute,
				Note: "thorough-only (quick: the schedule generator run checks the same invariants on conc_q's constants). KlevConc.tla: lock-level model with reader object identity; every result checked at its linearization point, full scan = abstract log at quiescence, head flag only on the last reader"},
				{Module: "KlevConc.tla", Cfg: "conc_f13.cfg", Workers: 4, Timeout: 10 * time.Minute, Expect: "QuiescentOK,HeadFlagOK",
					Note: "negative control: the model of the code before the repair of F13 (stale head reader) must violate QuiescentOK or HeadFlagOK"},
				{Module: "KlevConcK.tla", Cfg: tierS(tier, "conck_sync_q.cfg", "conck_t.cfg"), Workers: 16, Timeout: 30 * time.Minute,
					Note: "(quick: the Sync process alone; the lookups' constants of conck_q are checked by the schedule generator run, ConcKGen) KlevConcK.tla: Sync under writerMu against writers closed by a rollover or a rewrite of the writing segment (SYNC-ON-CLOSED-WRITER, SYNC-OFFSET), and the multi-segment lookups (GetByKey, GetByTime with the emptyHead flag / previous-segment rule / hand-off to the next segment, ConsumeByKey with next-offset-before-keys) as walks over reader objects, one action per object visited, under a concurrent publisher (rollover) and deleter; a result must be right in one of the abstract states the log went through during the call"},
				{Module: "KlevConcK.tla", Cfg: "conck_f16.cfg", Workers: 4, Timeout: 10 * time.Minute, Expect: "CONSUMEBYKEY-NOT-LINEARIZABLE",
					Note: "negative control: key positions read before the next offset (the code before fix a5c0795, F16 = seeded change S116 at design level): a cursor skips a message for good"},
				{Module: "KlevConcK.tla", Cfg: "conck_syncunlocked.cfg", Workers: 4, Timeout: 10 * time.Minute, Expect: "SYNC-ON-CLOSED-WRITER",
					Note: "negative control: Sync releases writerMu before it fsyncs (seeded change S132 at design level): a rollover closes the writer under it"},
				{Module: "KlevConcK.tla", Cfg: "conck_guardbroad.cfg", Workers: 8, Timeout: 10 * time.Minute, Expect: "GETBYTIME-NOT-LINEARIZABLE",
					Note: "negative control: the over-broad guard of 86dfaca (no hand-off to ANY next segment once a head was seen empty; seeded change S137 at design level): a query in the gap between two older segments is not found"},
				{Module: "KlevConcK.tla", Cfg: "conck_noguard.cfg", Workers: 4, Timeout: 10 * time.Minute, Expect: "GETBYTIME-NOT-LINEARIZABLE",
					Note: "negative control: GetByTime hands off into a head segment it saw empty (the code before fixes ac9bbd1 / 86dfaca / 647863d, F02)"},
				{Module: "Reader.tla", Cfg: tierS(tier, "reader_q.cfg", "reader_t.cfg"), Workers: 8, Timeout: 20 * time.Minute,
					Note: "Reader.tla: lazy load / unload of one closed segment's reader (getIndexMarked, getMessages, GC) under concurrent consumers and GC calls, one action per lock section / pause point: NoUseAfterClose, InuseExact, NoLeak, no deadlock, every call returns (liveness under weak fairness)"},
				{Module: "Reader.tla", Cfg: "reader_no_inc.cfg", Workers: 4, Timeout: 5 * time.Minute, Expect: "NoUseAfterClose",
					Note: "negative control: counting the user after releasing the read lock lets GC unmap a handle in use"},
				{Module: "Reader.tla", Cfg: "reader_no_count.cfg", Workers: 4, Timeout: 5 * time.Minute, Expect: "InuseExact,NoUseAfterClose",
					Note: "negative control: the re-check branch hands out the shared reader without counting the user (seeded change S83 at design level)"},
				{Module: "Reader.tla", Cfg: "reader_no_recheck.cfg", Workers: 4, Timeout: 5 * time.Minute, Expect: "NoLeak",
					Note: "negative control: without the second look under the write lock two loaders leak a mapping"}},
			Extra:  runC08,
			Rule:   "C08: a case is one concurrent history of the real code, built with the race detector: (i) seeded free-running mixes (2-5 goroutines x 3-8 calls of Publish, Consume, Get, GetByKey, ConsumeByKey, GetByTime, Delete, Sync, NextOffset, Stat, GC on prepared small-rollover logs with holes, warm and cold readers, KeepRewriteVersion on/off), (ii) window placement: a call A (Publish with/without rollover, Delete in head/reader segment, Consume with reader load, GC) is held at one of 19 pause points and two further calls run inside the window (or block on A's locks), then a closing scan. TLC (TraceLin) searches a linearization of every history against KlevAbs; a data race report of the race detector is a violation of its own.",
			Assume: []string{"the Go race detector decides data-race freedom on the schedules that occur", "a call that does not finish within 25 ms inside a window is classified as blocked and stays pending until the window closes"},
		}
	case "C18":
		return &SeqProfile{Prop: prop, NRandom: 0, Module: "TraceNotifyFinal.tla", Cfg: "TraceNotifyFinal.cfg",
			Design: []DesignRun{{Module: "MCNotify.tla", Cfg: "notify_q.cfg", Workers: 8, Timeout: 10 * time.Minute,
				Note: "Notify.tla: NoLostWakeup, Caused, TokenMutex and liveness under weak fairness (3 waiters below/at/above, 2 setters, Close, 1 cancel)"},
				{Module: "MCNotify.tla", Cfg: "notify_no_token.cfg", Workers: 4, Timeout: 5 * time.Minute, Expect: "NoLostWakeup",
					Note: "negative control: probing before the token is taken (seeded change S39 at design level) loses a wake-up"},
				{Module: "NotifyInd.tla", Apalache: []string{"--cinit=" + tierS(tier, "ConstInitQ", "ConstInitT"), "--init=Init", "--next=Next", "--inv=IndInv", "--length=0"}, Timeout: 20 * time.Minute,
					Note: "inductive invariant, base case: Init => IndInv"},
				{Module: "NotifyInd.tla", Apalache: []string{"--cinit=" + tierS(tier, "ConstInitQ", "ConstInitT"), "--init=IndInit", "--next=Next", "--inv=IndInv", "--length=1"}, Timeout: 60 * time.Minute,
					Note: "inductive invariant, step: IndInv /\\ Next => IndInv' (Apalache, symbolic): NoLostWakeup, Caused, TokenMutex hold in every reachable state for behaviours of any length; quick: 4 waiters at any offsets in 0..3, 2 setters with any values, any cancellable set, Close; thorough: 8 waiters, 3 setters"}},
			Extra:  runNotify,
			Rule:   "C18: (i) TLC-generated schedules of Notify.tla (one shortest schedule per distinct model state, seeded stride in quick) are stepped through the real pkg/notify.Offset goroutine by goroutine via the notify.* pause points; at quiescence TLC judges which waiters returned with what and which are still blocked (TraceNotifyFinal); the step-by-step trace is validated against Notify.tla for drift only; (ii) free-running mixes of up to 8 waiters, setters, Close and cancels; (iii) phase scenarios on OpenBlocking: immediate returns below NextOffset / relative offsets equal Consume, waiters at and beyond NextOffset stay blocked, are woken by a passing Publish with Consume's result, cancel, Close, wait after Close.",
			Assume: []string{"'stays blocked' is a bounded-time observation (15-40 ms); 'wakes' allows 5 s"},
		}
	case "C19":
		return &SeqProfile{Prop: prop, NRandom: 0, Module: "TraceHandles.tla", Cfg: "TraceHandles.cfg",
			Design: []DesignRun{{Module: "Handles.tla", Cfg: tierS(tier, "handles_q.cfg", "handles_t.cfg"), Workers: 4, Timeout: 5 * time.Minute,
				Note: "Handles.tla bounded exhaustive: OneWriter, WriterExclusive, Released"},
				{Module: "HandlesLock.tla", Cfg: "handleslock_q.cfg", Workers: 4, Timeout: 5 * time.Minute,
					Note: "HandlesLock.tla: the flock protocol with file identity (open/create .lock, try the lock, rest of Open, release) interleaved for 3 handles: OneWriter, WriterExclusive, OneLockFile, LocksConsistent, Released, RefusalJustified"},
				{Module: "HandlesLock.tla", Cfg: "handleslock_no_keepfile.cfg", Workers: 4, Timeout: 5 * time.Minute, Expect: "WriterExclusive,OneWriter",
					Note: "negative control: a failed Open that unlinks the lock file (seeded change S36 at design level) lets a writer in beside a reader"}},
			Extra: func(r *SeqRun) {
				hs, n, err := handleHistsFromSpec(tierS(tier, "handlesgen_q.cfg", "handlesgen_t.cfg"), r.Scratch, 10*time.Minute)
				if err != nil {
					r.infra("handles generator: %v", err)
					return
				}
				if tier == "thorough" { // every history of exactly 4 steps of 3 handles (the history is part of the state: no VIEW)
					all, n2, err := handleHistsFromSpec("handlesgen_all_t.cfg", r.Scratch, 30*time.Minute)
					if err != nil {
						r.infra("handles generator (all histories): %v", err)
						return
					}
					for _, h := range all {
						h.ID += 2000000
					}
					hs, n = append(hs, all...), n+n2
				}
				r.GenStates, r.NGen = n, len(hs)
				for i := 0; i < tierN(tier, 300, 200000); i++ {
					hs = append(hs, genHandleHist(1000000+i, r.Seed, 14))
				}
				r.execHandleHists(hs)
			},
			Rule: "C19: every Open result of up to three handles (both modes, CreateDirs on/off, Check on/off with a damaged head index, missing directory) judged against Handles.tla; Publish/Delete on read-only handles; read-only answers compared with the writer's last answers on the same files; SHA-256 of all log files before/after each read-only session.",
		}
	case "C13":
		g.Steps = 20
		q := []string{"n", "a", "b", "g", "k17"}
		return &SeqProfile{Prop: prop, Gen: g, NRandom: tierN(tier, 360, 14000), Module: "TraceAbs.tla", Cfg: "TraceAbs.cfg",
			Obs: Obs{Scan: true, Stat: true, Size: true, JudgeLayout: true, JudgeOpen: true, Get: true, Key: true, Time: true, KeyQ: q, Maxes: []int64{1, 32}},
			Hist: func(id int, seed int64) *History {
				switch id % 6 {
				case 0:
					return genSweepHistory(id/6, seed)
				case 1, 2, 3:
					return genSynthHistory(id, seed)
				}
				gg := g
				gg.TimeMode = "mono"
				return genHistory(id, seed, gg)
			},
			Rule: "C13: (i) every file of every state parses completely with the reference decoder and re-encodes to identical bytes (layout events), (ii) directories written by the reference ENCODER (both versions, four index layouts, index absent or in the other version, holes, empty head) are opened, read and extended by the real code, (iii) key/value lengths 0..300 (+64KiB..1MiB) and times over the int64 microsecond range through the file reader (head) and the mmap reader (closed segments), (iv) Size(m) against the documented layout and against the bytes actually added, Stat against the file-system totals.",
		}
	case "C05", "C06":
		g.Steps = tierN(tier, 9, 12)
		g.MaxBatch = 3
		g.VLens = []int{0, 3, 10, 24}
		g.KeyPool = []string{"n", "a", "b", "g"}
		g.WDeleteMulti, g.WTrim, g.WCompact, g.ROPct = 0, 0, 0, 0
		g.BigEvery, g.LargeEvery = 0, 0 // every file-system step of every operation is a case here: small histories only
		g.EagerOneIn = 2                // migrations rewrite every segment: many crash points that nothing else reaches
		g.WPublish, g.WDelete, g.WReopen, g.WSync, g.WGC = 40, 30, 12, 8, 2
		g.Rollovers = []int64{60, 100, 150, 300, 5000}
		g.TimeMode = "mono"
		ploss := prop == "C06"
		if ploss {
			g.AutoSyncOneIn = 2 // every AutoSync Publish acknowledges: many more points at which something must be durable
		}
		var design []DesignRun
		if ploss {
			design = []DesignRun{
				{Module: "KlevFSDur.tla", Cfg: tierS(tier, "fsdur_q.cfg", "fsdur_t.cfg"), Workers: 16, Timeout: 40 * time.Minute,
					Note: "KlevFSDur.tla: KlevFS + durable lengths (fold of fsync/create/rename/remove over the plans); PowerLoss1 = every plan prefix x every cut of every file between its durable and written length recovers to a prefix of what was written containing everything below the acknowledged offset"},
				{Module: "KlevFSDur.tla", Cfg: "fsdur_auto_q.cfg", Workers: 16, Timeout: 20 * time.Minute, Note: "the same with AutoSync (every Publish acknowledges)"},
				{Module: "KlevFSDur.tla", Cfg: "fsdur_no_rcfsync.cfg", Workers: 8, Timeout: 10 * time.Minute, Expect: "PowerLoss2",
					Note: "negative control: Recover renames its copy over the head log without fsyncing it (seeded change S131 at design level): a second power loss inside or after the recovery loses acknowledged messages (PowerLoss2: every prefix of the recovery plan of every first image, whole-item and torn cuts, cut back to what is durable and recovered again)"}}
		}
		if !ploss {
			design = []DesignRun{{Module: "KlevFS.tla", Cfg: tierS(tier, "fs_q.cfg", "fs_t.cfg"), Workers: 16, Timeout: 30 * time.Minute,
				Note: "KlevFS.tla: operations compiled to plans of file-system primitives; Crash1/Crash2 = every plan prefix and torn class of every enabled operation (and of the recovery plan itself) recovers to an allowed state; KF-C05-1 exempted by its signature"}}
			design = append(design,
				DesignRun{Module: "KlevFSMig.tla", Cfg: tierS(tier, "fsmig_q.cfg", "fsmig_t.cfg"), Workers: 16, Timeout: 30 * time.Minute,
					Note: "KlevFSMig.tla: KlevFS + format migration (Segment.Migrate as a plan, for every segment in order; files carry the record format, index files the format their positions refer to): MigrateOK, CrashM1 / CrashM2 = every prefix and torn class of the migration plan (and of the recovery that follows) recovers to the same messages, all views agreeing, and the migration run again completes"},
				DesignRun{Module: "KlevFSMig.tla", Cfg: "fsmig_no_rmindex.cfg", Workers: 4, Timeout: 10 * time.Minute, Expect: "CrashM1",
					Note: "negative control: a migration that does not remove the old index first (seeded change S69 at design level) leaves a non-head segment with a new-format log and old positions"})
			for _, c := range []string{"FixRecoverStale", "FixShortHdr", "FixTailOrder", "KnownRebase", "FreshTmp"} {
				design = append(design, DesignRun{Module: "KlevFS.tla", Cfg: "fs_no_" + c + ".cfg", Workers: 4, Timeout: 10 * time.Minute, Expect: "Crash1,Crash2",
					Note: "negative control: the model with " + c + " switched off (the code before the repair / the open finding without its exemption) must violate Crash1 or Crash2"})
			}
		}
		return &SeqProfile{Prop: prop, Gen: g, Design: design, NRandom: tierN(tier, 40, 300), Module: "TraceCrash.tla", Cfg: "TraceCrash.cfg",
			Hist: func(id int, seed int64) *History {
				if id%8 == 7 {
					return genMigrateHistory(id, seed)
				}
				return genHistory(id, seed, g)
			},
			RunHist: func(r *SeqRun, h *History, tw *TraceWriter, root string) {
				c := &crashRunner{r: r, h: h, tw: tw, root: root, torn: tierS(r.Tier, "classes", "all"), depth2: !ploss, ploss2: ploss, plossOn: ploss, crashOn: !ploss}
				c.run()
			},
			Rule:   "a case is one crash / power-loss image of a tapped real run: the directory after every file-system step of every operation (create, header, record/item append, fsync, rename, remove, dirsync), the interrupted append cut at byte positions (classes in quick, every byte in thorough), for C05 also the directory after every step of the recovery itself (depth 2), for C06 every file cut back between its fsynced and its written length; each image is opened by the real code with Recover, observed (scan, Get sweep, key/time lookups, Stat), recovered again (bytes unchanged), appended to and Checked; TLC judges CrashRecoverOK / PowerLossOK.",
			Assume: []string{"8-byte file headers are written atomically", "directory operations are durable in program order", "the tap reports every file-system mutation (a missing call site would hide crash points, not raise alarms)"},
		}
	case "C07":
		return &SeqProfile{Prop: prop, NRandom: 0, Module: "TraceFrames.tla", Cfg: "TraceFrames.cfg",
			Design: []DesignRun{{Module: "Frames.tla", Cfg: "frames.cfg", Workers: 4, Timeout: 5 * time.Minute,
				Note: "Frames.tla: Recover/Check operators against RecoverOK/CheckOK for every (n, junk class, index class)"}},
			Extra:  runFrames,
			Rule:   "C07: a case is one damaged head segment (log bytes + index bytes); for each: Check, Recover, Check, Recover again, reopen+append, Check; the reference codec projects the files before/after to (valid records, junk class, index class) and TLC judges RecoverOK / CheckOK. Enumerated: every truncation length (0, >=8), every byte position (bit flip) after the header, zero/0xFF/random tails of every length, index missing / truncated at every length / every byte changed / extra items, x four index configurations, V2 (V1: truncation and index damage only).",
			Assume: []string{"the reference parser defines which records are valid"},
		}
	case "C14":
		return &SeqProfile{Prop: prop, NRandom: 0, Module: "TraceFrames.tla", Cfg: "TraceFrames.cfg",
			Design: []DesignRun{{Module: "Frames.tla", Cfg: "frames.cfg", Workers: 4, Timeout: 5 * time.Minute,
				Note: "Frames.tla: NeverJunk (a read never returns what the scanner classifies as junk)"}},
			Extra:  runC14,
			Rule:   "C14: a case is one damage (bit flip / 1-8 byte overwrite / truncation / zero-filled tail at a position of one segment log file of a 3-segment V2 log with a hole, colliding keys and an equal-time run across a boundary) x mode (reopen, live with cold or warm readers); for each the full query list (Consume and Get at every offset, GetByKey/ConsumeByKey for every key incl. colliding and absent, GetByTime at 1us steps) is run in a single-threaded child process and every answer is judged by TLC with DamagedReadOK and AllocOK (bytes allocated by the call).",
			Assume: []string{"truncation is only applied before opening: cutting a file short under a live mmap raises SIGBUS in any mmap reader", "which files a call reads is derived from the documented access pattern (conservative: 'other file only' is asserted only for answers that carry data)"},
		}
	case "C15":
		g.WTrim, g.WCompact, g.WDelete, g.WDeleteMulti, g.WPublish = 22, 0, 8, 3, 45
		g.TrimKinds = []string{"offset", "count", "size", "age"}
		g.Versions = false
		g.Steps = 28
		return &SeqProfile{Prop: prop, Gen: g, NRandom: tierN(tier, 500, 60000), Module: "TraceAbs.tla", Cfg: "TraceAbs.cfg",
			Obs: Obs{JudgeTrim: true, Scan: true, Maxes: []int64{32}},
			Hist: func(id int, seed int64) *History {
				gg := g
				gg.SingleVer = 1 + id%2
				if id%3 == 0 {
					gg.TimeMode = "mono"
				}
				return genHistory(id, seed, gg)
			},
			Rule: "C15: every FindBy* result and the following Trim* call (Multi, MultiOffsets and single-pass variants) judged; Stat size bound after TrimBySizeMulti; full scan afterwards. Single-version logs (size bound).",
		}
	case "C16":
		g.WTrim, g.WCompact, g.WDelete, g.WDeleteMulti, g.WPublish, g.WReopen = 0, 25, 4, 2, 50, 6
		g.CompactKinds = []string{"updates", "deletes", "updates", "deletes", "both"}
		g.KeyPool = smallKeys
		g.Tomb = 35
		g.TimeMode = "spaced"
		g.Steps = 26
		return &SeqProfile{Prop: prop, Gen: g, NRandom: tierN(tier, 500, 60000), Module: "TraceAbs.tla", Cfg: "TraceAbs.cfg",
			Obs: Obs{JudgeCompact: true, Scan: true, Maxes: []int64{32}},
			Hist: func(id int, seed int64) *History {
				gg := g
				if id%4 == 0 {
					gg.KeyPool = []string{"n", "a"}
				}
				if id%3 == 0 {
					gg.TimeMode = "spacedany" // times in any order: the compaction scans stop at the first too-new message
				}
				return genHistory(id, seed, gg)
			},
			Rule: "C16: every CompactUpdates*/CompactDeletes*/Compact call judged (latest value per key unchanged, only allowed messages removed, at most one message per key left at or before the cut-off); full scan afterwards.",
		}
	case "C17":
		g.Versions = true
		g.WReopen = 18
		g.WDelete, g.WDeleteMulti = 22, 6
		return &SeqProfile{Prop: prop, Gen: g, NRandom: tierN(tier, 400, 50000), Module: "TraceAbs.tla", Cfg: "TraceAbs.cfg",
			Obs:  Obs{Scan: true, Next: true, Layout: true, JudgeLayout: true, JudgeOpen: true, Maxes: []int64{32}},
			Rule: "C17: per-file format versions (projected by the reference codec) before/after every Open, Publish, Delete and Migrate judged against the version rules; scan and NextOffset after every step.",
		}
	}
	return nil
}

var _ = time.Second
