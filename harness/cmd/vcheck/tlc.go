package main

import (
	"bytes"
	"context"
	"fmt"
	"os"
	"os/exec"
	"path/filepath"
	"regexp"
	"strconv"
	"strings"
	"time"
)

const tlaCP = "/opt/veriftools/tla/tla2tools.jar:/opt/veriftools/tla/CommunityModules-deps.jar"

var specDir = "/verif/spec"

type TLCRun struct {
	Out       string
	Generated int
	Distinct  int
	Depth     int // for trace specs: lines consumed
	Total     int // for trace specs: lines in the trace
	KF        map[string]int
	OK        bool // TLC finished without reporting an error
	InvViol   string
	Wall      float64
	Infra     error // TLC could not run / crashed / timed out
}

var reStates = regexp.MustCompile(`(\d+) states generated, (\d+) distinct states found`)
var reDepth = regexp.MustCompile(`<<"TRACE-DEPTH", (-?\d+), (\d+)>>`)
var reKF = regexp.MustCompile(`<<"KF-HIT", \{([^}]*)\}, (\d+)>>`)
var reInv = regexp.MustCompile(`Invariant (\S+) is violated`)

// a failed Assert inside an action (KlevConc / KlevConcK judge results at linearization points that way): the tag is
// the first element of the tuple TLC prints
var reAssert = regexp.MustCompile(`first argument of Assert evaluated to FALSE; the second argument was:\s*<<\s*"([^"]+)"`)

// runTLC runs TLC on module/cfg inside specDir. env adds environment variables (TRACE=...).
func runTLC(module, cfg string, workers int, serialGC bool, extra []string, env []string, timeout time.Duration, scratch string) TLCRun {
	return runTLCOpts(module, cfg, workers, serialGC, extra, env, timeout, scratch, nil)
}

func runTLCOpts(module, cfg string, workers int, serialGC bool, extra []string, env []string, timeout time.Duration, scratch string, jvm []string) TLCRun {
	meta, err := os.MkdirTemp(scratch, "tlcmeta")
	if err != nil {
		return TLCRun{Infra: err}
	}
	defer os.RemoveAll(meta)
	args := append([]string{"-Xss64m"}, jvm...)
	if serialGC {
		args = append(args, "-XX:+UseSerialGC", "-Xmx6g")
	} else {
		args = append(args, "-XX:+UseParallelGC", "-Xmx24g")
	}
	args = append(args, "-cp", tlaCP, "tlc2.TLC", "-workers", strconv.Itoa(workers), "-metadir", meta, "-noGenerateSpecTE",
		"-config", cfg)
	args = append(args, extra...)
	args = append(args, module)
	ctx, cancel := context.WithTimeout(context.Background(), timeout)
	defer cancel()
	cmd := exec.CommandContext(ctx, "java", args...)
	cmd.Dir = specDir
	cmd.Env = append(os.Environ(), env...)
	var buf bytes.Buffer
	cmd.Stdout, cmd.Stderr = &buf, &buf
	t0 := time.Now()
	rerr := cmd.Run()
	r := TLCRun{Out: buf.String(), Wall: time.Since(t0).Seconds(), KF: map[string]int{}, Depth: -1}
	if ctx.Err() != nil {
		r.Infra = fmt.Errorf("TLC timeout after %v on %s/%s", timeout, module, cfg)
		return r
	}
	if m := reStates.FindAllStringSubmatch(r.Out, -1); len(m) > 0 {
		last := m[len(m)-1]
		r.Generated, _ = strconv.Atoi(last[1])
		r.Distinct, _ = strconv.Atoi(last[2])
	}
	if m := reDepth.FindStringSubmatch(r.Out); m != nil {
		r.Depth, _ = strconv.Atoi(m[1])
		r.Total, _ = strconv.Atoi(m[2])
	}
	for _, m := range reKF.FindAllStringSubmatch(r.Out, -1) {
		for _, id := range strings.Split(m[1], ",") {
			id = strings.Trim(strings.TrimSpace(id), `"`)
			if id != "" {
				r.KF[id]++
			}
		}
	}
	if m := reInv.FindStringSubmatch(r.Out); m != nil {
		r.InvViol = m[1]
	} else if m := reAssert.FindStringSubmatch(r.Out); m != nil {
		r.InvViol = m[1]
	}
	finished := strings.Contains(r.Out, "Model checking completed") || strings.Contains(r.Out, "Finished in") || strings.Contains(r.Out, "Finished computing")
	hasErr := strings.Contains(r.Out, "Error:") || strings.Contains(r.Out, "error")
	r.OK = rerr == nil && finished && !strings.Contains(r.Out, "Error:")
	_ = hasErr
	if !finished && r.Depth < 0 && r.InvViol == "" {
		r.Infra = fmt.Errorf("TLC did not finish (%v): %s", rerr, tail(r.Out, 30))
	}
	return r
}

func tail(s string, n int) string {
	lines := strings.Split(strings.TrimRight(s, "\n"), "\n")
	if len(lines) > n {
		lines = lines[len(lines)-n:]
	}
	return strings.Join(lines, "\n")
}

// validateTrace runs a trace spec over an ndjson trace. It returns the run and, if the trace was
// rejected, the 1-based line number of the first line TLC could not consume.
func validateTrace(module, cfg, trace string, scratch string) (TLCRun, int) {
	abs, _ := filepath.Abs(trace)
	r := runTLC(module, cfg, 1, true, nil, []string{"TRACE=" + abs}, 20*time.Minute, scratch)
	if r.Infra != nil {
		return r, 0
	}
	if r.Depth < 0 {
		r.Infra = fmt.Errorf("trace spec produced no TRACE-DEPTH line: %s", tail(r.Out, 40))
		return r, 0
	}
	// any TLC error other than the failed acceptance postcondition is a problem of the spec or the
	// trace encoding, never a verdict about the code
	for _, ln := range strings.Split(r.Out, "\n") {
		if strings.HasPrefix(ln, "Error:") && !strings.Contains(ln, "Postcondition Accepted") {
			r.Infra = fmt.Errorf("TLC error while validating %s: %s", filepath.Base(trace), tail(r.Out, 30))
			return r, 0
		}
	}
	if r.Depth == r.Total {
		return r, 0
	}
	return r, r.Depth + 1
}

// runApalache runs `apalache-mc check` on a module of the spec directory; ok = "The outcome is: NoError".
func runApalache(module string, args []string, timeout time.Duration, scratch string) (ok bool, out string, wall float64, infra error) {
	od, err := os.MkdirTemp(scratch, "apalache")
	if err != nil {
		return false, "", 0, err
	}
	defer os.RemoveAll(od)
	a := append([]string{"check", "--out-dir=" + od}, args...)
	a = append(a, module)
	ctx, cancel := context.WithTimeout(context.Background(), timeout)
	defer cancel()
	cmd := exec.CommandContext(ctx, "apalache-mc", a...)
	cmd.Dir = specDir
	var buf bytes.Buffer
	cmd.Stdout, cmd.Stderr = &buf, &buf
	t0 := time.Now()
	rerr := cmd.Run()
	out, wall = buf.String(), time.Since(t0).Seconds()
	if ctx.Err() != nil {
		return false, out, wall, fmt.Errorf("apalache timeout after %v on %s %v", timeout, module, args)
	}
	if strings.Contains(out, "The outcome is: NoError") {
		return true, out, wall, nil
	}
	if strings.Contains(out, "The outcome is: Error") {
		return false, out, wall, nil
	}
	return false, out, wall, fmt.Errorf("apalache did not finish (%v): %s", rerr, tail(out, 15))
}
