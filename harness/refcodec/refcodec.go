// Package refcodec is an independent reader/writer of klevdb's documented on-disk
// layout. It shares no code with github.com/klev-dev/klevdb/pkg/{message,index}:
// it is written from the format description only and is part of the trusted base
// of the checks that look at bytes (C05-C07, C11, C13, C14, C17).
//
// Log file
//
//	V1: no file header; records back to back:
//	    offset(8) unixmicro(8) keylen(4) valuelen(4) crc32c(4, over key+value) key value
//	V2: file header 0xFF 'k' 'l' 'e' 'v' 's' version(1)=1 reserved(1)=0; records:
//	    crc32c(4, over everything that follows in the record)
//	    offset(8) unixmicro(8) keylen(4) valuelen(4) key value 0xDEADBEEFFEEDFACE
//
// Index file
//
//	V1: no header; V2: 0xFF 'k' 'l' 'e' 'v' 'i' version(1)=1 flags(1) (bit0 times, bit1 keys)
//	items: offset(8) position(8) [timestamp(8)] [keyhash(8)]   (big endian)
//
// A file without magic prefix is V1 iff its first 8 bytes are the big endian
// offset of the segment (the first record's / first item's offset).
package refcodec

import (
	"encoding/binary"
	"hash/crc32"
)

var castagnoli = crc32.MakeTable(crc32.Castagnoli)

var logMagic = []byte{0xFF, 'k', 'l', 'e', 'v', 's'}
var idxMagic = []byte{0xFF, 'k', 'l', 'e', 'v', 'i'}

const trailer uint64 = 0xDEADBEEFFEEDFACE

// Rec is one record of a log file.
type Rec struct {
	Pos    int64 // byte position of the record in the file
	Len    int64 // encoded length
	Offset int64
	Micros int64
	Key    []byte
	Value  []byte
}

// LogFile is the result of parsing a log file.
type LogFile struct {
	Version  int   // 1 or 2; 0 = unrecognisable
	Header   int64 // 0 or 8
	Recs     []Rec
	ValidEnd int64  // position after the last valid record
	Size     int64  // file size
	Junk     string // "" if the file parses completely, else the class of what follows the valid prefix
	Exact    bool   // re-encoding the parsed records gives the first ValidEnd bytes again
}

func hasPrefix(b, p []byte) bool {
	if len(b) < len(p) {
		return false
	}
	for i := range p {
		if b[i] != p[i] {
			return false
		}
	}
	return true
}

// DetectLogVersion follows the documented rule. base is the segment offset from the file name.
func DetectLogVersion(b []byte, base int64) int {
	if len(b) == 0 {
		return 1 // an empty file is an empty V1 log
	}
	if len(b) < 8 {
		return 0
	}
	if hasPrefix(b, logMagic) {
		if b[6] == 1 && b[7] == 0 {
			return 2
		}
		return 0
	}
	if int64(binary.BigEndian.Uint64(b)) == base {
		return 1
	}
	return 0
}

// ParseLog parses a complete log file image.
func ParseLog(b []byte, base int64) LogFile {
	lf := LogFile{Size: int64(len(b))}
	lf.Version = DetectLogVersion(b, base)
	switch lf.Version {
	case 1:
		lf.Header = 0
	case 2:
		lf.Header = 8
	default:
		lf.Junk = "header"
		return lf
	}
	pos := lf.Header
	for {
		rec, junk := parseRec(b, pos, lf.Version)
		if junk != "" {
			if junk != "eof" {
				lf.Junk = junk
			}
			break
		}
		lf.Recs = append(lf.Recs, rec)
		pos += rec.Len
	}
	lf.ValidEnd = pos
	// byte exactness of the valid prefix
	enc := EncodeLog(lf.Version, lf.Recs)
	lf.Exact = int64(len(enc)) == lf.ValidEnd && string(enc) == string(b[:lf.ValidEnd])
	return lf
}

func parseRec(b []byte, pos int64, ver int) (Rec, string) {
	rest := b[pos:]
	if len(rest) == 0 {
		return Rec{}, "eof"
	}
	if len(rest) < 28 {
		return Rec{}, "shortHdr"
	}
	var off, micros int64
	var klen, vlen int32
	var crc uint32
	if ver == 1 {
		off = int64(binary.BigEndian.Uint64(rest[0:]))
		micros = int64(binary.BigEndian.Uint64(rest[8:]))
		klen = int32(binary.BigEndian.Uint32(rest[16:]))
		vlen = int32(binary.BigEndian.Uint32(rest[20:]))
		crc = binary.BigEndian.Uint32(rest[24:])
	} else {
		crc = binary.BigEndian.Uint32(rest[0:])
		off = int64(binary.BigEndian.Uint64(rest[4:]))
		micros = int64(binary.BigEndian.Uint64(rest[12:]))
		klen = int32(binary.BigEndian.Uint32(rest[20:]))
		vlen = int32(binary.BigEndian.Uint32(rest[24:]))
	}
	if klen < 0 || vlen < 0 || int64(klen)+int64(vlen) > 64*1024*1024 {
		return Rec{}, "badLen"
	}
	body := int64(klen) + int64(vlen)
	total := 28 + body
	if ver == 2 {
		total += 8
	}
	if int64(len(rest)) < total {
		return Rec{}, "shortBody"
	}
	if ver == 1 {
		if crc32.Checksum(rest[28:28+body], castagnoli) != crc {
			return Rec{}, "badCrc"
		}
	} else {
		if crc32.Checksum(rest[4:total], castagnoli) != crc {
			return Rec{}, "badCrc"
		}
		if binary.BigEndian.Uint64(rest[28+body:]) != trailer {
			return Rec{}, "badTrailer"
		}
	}
	r := Rec{Pos: pos, Len: total, Offset: off, Micros: micros}
	if klen > 0 {
		r.Key = append([]byte(nil), rest[28:28+int64(klen)]...)
	}
	if vlen > 0 {
		r.Value = append([]byte(nil), rest[28+int64(klen):28+body]...)
	}
	return r, ""
}

// EncodeRec encodes one record in the documented layout.
func EncodeRec(ver int, off, micros int64, key, value []byte) []byte {
	body := len(key) + len(value)
	if ver == 1 {
		b := make([]byte, 28+body)
		binary.BigEndian.PutUint64(b[0:], uint64(off))
		binary.BigEndian.PutUint64(b[8:], uint64(micros))
		binary.BigEndian.PutUint32(b[16:], uint32(len(key)))
		binary.BigEndian.PutUint32(b[20:], uint32(len(value)))
		copy(b[28:], key)
		copy(b[28+len(key):], value)
		binary.BigEndian.PutUint32(b[24:], crc32.Checksum(b[28:], castagnoli))
		return b
	}
	b := make([]byte, 36+body)
	binary.BigEndian.PutUint64(b[4:], uint64(off))
	binary.BigEndian.PutUint64(b[12:], uint64(micros))
	binary.BigEndian.PutUint32(b[20:], uint32(len(key)))
	binary.BigEndian.PutUint32(b[24:], uint32(len(value)))
	copy(b[28:], key)
	copy(b[28+len(key):], value)
	binary.BigEndian.PutUint64(b[28+body:], trailer)
	binary.BigEndian.PutUint32(b[0:], crc32.Checksum(b[4:], castagnoli))
	return b
}

// LogHeader returns the file header of a log file of the given version.
func LogHeader(ver int) []byte {
	if ver == 2 {
		return append(append([]byte(nil), logMagic...), 1, 0)
	}
	return nil
}

// EncodeLog encodes a complete log file.
func EncodeLog(ver int, recs []Rec) []byte {
	b := LogHeader(ver)
	for _, r := range recs {
		b = append(b, EncodeRec(ver, r.Offset, r.Micros, r.Key, r.Value)...)
	}
	return b
}

// Item is one index entry.
type Item struct {
	Offset    int64
	Position  int64
	Timestamp int64
	KeyHash   uint64
}

// IndexFile is the result of parsing an index file.
type IndexFile struct {
	Version  int // 1 or 2; 0 unrecognisable
	Header   int64
	Times    bool // flags from a V2 header
	Keys     bool
	Items    []Item
	Size     int64
	Partial  int64  // trailing bytes that do not make a full item
	Junk     string // "" | "header" | "flags" | "partial"
	ItemSize int64
}

// ItemSize is the documented size of one index item.
func ItemSize(times, keys bool) int64 {
	sz := int64(16)
	if times {
		sz += 8
	}
	if keys {
		sz += 8
	}
	return sz
}

// ParseIndex parses an index file image for the given index configuration.
func ParseIndex(b []byte, base int64, times, keys bool) IndexFile {
	f := IndexFile{Size: int64(len(b)), ItemSize: ItemSize(times, keys)}
	if len(b) == 0 {
		f.Version = 1
		return f
	}
	data := b
	switch {
	case len(b) < 8:
		f.Junk = "header"
		return f
	case hasPrefix(b, idxMagic):
		if b[6] != 1 || b[7]&0xFC != 0 {
			f.Junk = "header"
			return f
		}
		f.Version, f.Header = 2, 8
		f.Times, f.Keys = b[7]&1 == 1, b[7]&2 == 2
		if f.Times != times || f.Keys != keys {
			f.Junk = "flags"
			return f
		}
		data = b[8:]
	case int64(binary.BigEndian.Uint64(b)) == base:
		f.Version = 1
		f.Times, f.Keys = times, keys
	default:
		f.Junk = "header"
		return f
	}
	n := int64(len(data)) / f.ItemSize
	f.Partial = int64(len(data)) % f.ItemSize
	if f.Partial != 0 {
		f.Junk = "partial"
	}
	for i := int64(0); i < n; i++ {
		p := data[i*f.ItemSize:]
		it := Item{Offset: int64(binary.BigEndian.Uint64(p[0:])), Position: int64(binary.BigEndian.Uint64(p[8:]))}
		q := 16
		if times {
			it.Timestamp = int64(binary.BigEndian.Uint64(p[q:]))
			q += 8
		}
		if keys {
			it.KeyHash = binary.BigEndian.Uint64(p[q:])
		}
		f.Items = append(f.Items, it)
	}
	return f
}

// IndexHeader returns the file header of an index file.
func IndexHeader(ver int, times, keys bool) []byte {
	if ver != 2 {
		return nil
	}
	var fl byte
	if times {
		fl |= 1
	}
	if keys {
		fl |= 2
	}
	return append(append([]byte(nil), idxMagic...), 1, fl)
}

// EncodeIndex encodes a complete index file.
func EncodeIndex(ver int, times, keys bool, items []Item) []byte {
	b := IndexHeader(ver, times, keys)
	for _, it := range items {
		var p [32]byte
		binary.BigEndian.PutUint64(p[0:], uint64(it.Offset))
		binary.BigEndian.PutUint64(p[8:], uint64(it.Position))
		q := 16
		if times {
			binary.BigEndian.PutUint64(p[q:], uint64(it.Timestamp))
			q += 8
		}
		if keys {
			binary.BigEndian.PutUint64(p[q:], it.KeyHash)
			q += 8
		}
		b = append(b, p[:q]...)
	}
	return b
}

// FNV1a64 is the documented key hash (64-bit FNV-1a), implemented here from the constants.
func FNV1a64(key []byte) uint64 {
	h := uint64(14695981039346656037)
	for _, c := range key {
		h ^= uint64(c)
		h *= 1099511628211
	}
	return h
}

// DeriveIndex computes the index a log file determines: offsets, positions, key hashes,
// and monotone timestamps starting from prev (0 for a stand-alone segment).
func DeriveIndex(recs []Rec, times, keys bool, prev int64) []Item {
	items := make([]Item, 0, len(recs))
	for _, r := range recs {
		it := Item{Offset: r.Offset, Position: r.Pos}
		if times {
			t := r.Micros
			if prev > t {
				t = prev
			}
			it.Timestamp = t
			prev = t
		}
		if keys {
			it.KeyHash = FNV1a64(r.Key)
		}
		items = append(items, it)
	}
	return items
}
