module verif

go 1.25.0

toolchain go1.26.1

require github.com/klev-dev/klevdb v0.0.0

require (
	github.com/gofrs/flock v0.13.0 // indirect
	github.com/plar/go-adaptive-radix-tree/v2 v2.0.4 // indirect
	golang.org/x/exp v0.0.0-20260410095643-746e56fc9e2f // indirect
	golang.org/x/sys v0.43.0 // indirect
)

replace github.com/klev-dev/klevdb => /repo
