SPECIFICATION TSpec
CONSTANTS
  Waiters <- mcWaiters
  Setters <- mcSetters
  WOff <- mcWOff
  SVal <- mcSVal
  MaxChan = 5
  CanClose = TRUE
  Cancels <- mcCancels
INVARIANTS NoLostWakeup Caused TokenMutex
POSTCONDITION Accepted
CHECK_DEADLOCK FALSE
