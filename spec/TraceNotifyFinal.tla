-------------------------- MODULE TraceNotifyFinal --------------------------
(* C18, property level.  One event per replayed schedule / free-running run of  *)
(* the real notifier ("nfinal") and per scenario step of the real blocking log  *)
(* ("bimmediate", "bblocked", "bwoken", "bcancel", "bclosed").                  *)
EXTENDS Integers, Sequences, FiniteSets, TLC, Json, IOUtils

Trace == ndJsonDeserialize(IOEnv.TRACE)
VARIABLE l
e == Trace[l]
Step == l <= Len(Trace) /\ l' = l + 1

\* ws[i] = [off, ret, cancelled, nextAtStart, setsBefore, closeBefore, afterClose]
\*   ret: "" still blocked at quiescence | "ok" | "closed" | "ctx"
\*   setsBefore / closeBefore: Set / Close calls that had started when the waiter returned
\*   afterClose: the Wait was invoked after Close had returned
\* next / nextHi: lower and upper bound of the notifier's offset at quiescence (a Set that overlaps Close may be a no-op)
WaiterOK(w, next, nextHi, closed) ==
  /\ w.ret = "ok" => (w.nextAtStart > w.off \/ w.setsBefore > 0 \/ w.closeBefore)        \* never for nothing
  /\ w.ret = "" => (next <= w.off /\ ~w.cancelled /\ ~closed)                            \* every passing publish / cancel / close wakes
  /\ w.ret = "ctx" => w.cancelled
  /\ w.ret = "closed" => (w.closeBefore /\ w.nextAtStart <= w.off)
  /\ (w.afterClose /\ w.off >= nextHi) => w.ret = "closed"                                \* a wait at/after next that starts after Close fails
  /\ w.nextAtStart > w.off => w.ret = "ok"                                                \* below NextOffset: returns at once
NFinal == Step /\ e.ev = "nfinal" /\ (\A i \in 1..Len(e.ws) : WaiterOK(e.ws[i], e.next, e.nextHi, e.closed)) = TRUE

\* blocking log scenarios: r and ref are [err, next, msgs]; ref = Consume / ConsumeByKey called at the same quiescent moment
BImmediate == Step /\ e.ev = "bimmediate" /\ (e.returned /\ e.r = e.ref) = TRUE          \* below next or relative: returns at once with Consume's result
BBlocked == Step /\ e.ev = "bblocked" /\ (e.off >= e.next => e.still) = TRUE             \* nothing happens: stays blocked
BWoken == Step /\ e.ev = "bwoken" /\ ((e.newNext > e.off => e.returned) /\ (e.returned => e.r = e.ref)) = TRUE
BCancel == Step /\ e.ev = "bcancel" /\ (e.returned /\ e.r.err = "Ctx") = TRUE
BClosed == Step /\ e.ev = "bclosed" /\ (e.returned /\ (e.startedAfterClose => e.r.err # "")) = TRUE

Config == Step /\ e.ev = "config"
Reset == Step /\ e.ev = "reset"
Next == Config \/ Reset \/ NFinal \/ BImmediate \/ BBlocked \/ BWoken \/ BCancel \/ BClosed
Spec == l = 1 /\ [][Next]_l
Accepted == /\ PrintT(<<"TRACE-DEPTH", TLCGet("stats").diameter - 1, Len(Trace)>>)
            /\ TLCGet("stats").diameter - 1 = Len(Trace)
=============================================================================
