SPECIFICATION Spec
CONSTANTS
  MaxOff = 4
  RollAt = 2
  NDel = 2
  NCons = 1
  NGet = 0
  MaxDel = 1
  FixStale = FALSE
VIEW view
INVARIANTS QuiescentOK HeadFlagOK
CHECK_DEADLOCK FALSE
