SPECIFICATION Spec
CONSTANTS
  Waiters <- mcWaiters
  Setters <- mcSetters
  WOff <- mcWOff
  SVal <- mcSVal
  MaxChan = 5
  CanClose = TRUE
  Cancels <- mcCancels
  ProbeFirst = FALSE
VIEW view
INVARIANTS NoLostWakeup Caused TokenMutex
PROPERTY Live
CHECK_DEADLOCK FALSE
