------------------------------ MODULE KlevConc ------------------------------
(* C08, design level: lock-level model of Publish / Consume / Delete with       *)
(* reader OBJECT identity (log.readers holds object ids; the locals of a call   *)
(* hold object ids, not positions - finding F13 exists only because Delete      *)
(* keeps a reference to an object that a rollover has replaced in the list).    *)
(* One publisher (one message per call), one deleter (offset SETS of up to       *)
(* MaxDel offsets), one consumer, and one reader G whose Get calls run          *)
(* atomically between the steps of the others (a complete call placed inside    *)
(* their pause windows).  One action per critical section / pause window:       *)
(*   Publish: lock writerMu -> [rollover: new objects -> swap under readersMu]  *)
(*            -> write the record to the file -> append to the index (the       *)
(*            visibility and linearization point) -> unlock                     *)
(*   Delete:  deleteMu -> find reader (RLock) -> writerMu section (wasWriter,   *)
(*            rewrite limit) -> rewrite (reads the FILE, no locks) -> writerMu  *)
(*            section: head (readersMu, length re-validation, swap) | no longer *)
(*            head: retry | reader segment (readersMu, swap)                    *)
(*   Consume: RLock ... read through the object's index ... RUnlock             *)
(* Refinement by linearization points: the abstract log is updated at the LP    *)
(* and every result is checked there against the abstract predicate.            *)
(* FixStale = TRUE models the code with fix e98ea2a (reader.Delete returns a    *)
(* fresh non-head object); FALSE reproduces F13 (conc_f13.cfg).                 *)
EXTENDS Integers, Sequences, FiniteSets, SequencesExt, FiniteSetsExt, TLC

CONSTANTS MaxOff, RollAt, NDel, NCons, NGet, MaxDel, FixStale

VARIABLES
  file,      \* base -> Seq(offset): records in the segment file
  vis,       \* base -> Seq(offset): items visible through the segment's index
  robj,      \* reader object id -> [seg, head]
  readers,   \* Seq(reader object id)  (log.readers)
  wr,        \* reader object id of the current writer (log.writer.reader)
  writerMu,  \* 0 free | process id
  readersW,  \* 0 free | process id holding the write lock
  readersR,  \* set of processes holding the read lock
  deleteMu,
  pc, loc,   \* per-process control state and locals
  absLive, absNext,  \* abstract log, updated at linearization points
  budget,    \* remaining calls per process
  hist       \* history variable (hidden by VIEW): the schedule so far, for replay through the pause points
vars == <<file, vis, robj, readers, wr, writerMu, readersW, readersR, deleteMu, pc, loc, absLive, absNext, budget, hist>>
view == <<file, vis, robj, readers, wr, writerMu, readersW, readersR, deleteMu, pc, loc, absLive, absNext, budget>>
Log(p, a, x) == hist' = Append(hist, [p |-> p, a |-> a, x |-> x])

Procs == {"P", "D", "C", "G"}
LastOf(s) == s[Len(s)]
NextOfSeg(b) == IF vis[b] = <<>> THEN b ELSE LastOf(vis[b]) + 1
NewId == Cardinality(DOMAIN robj) + 1
Ext(f, k, v) == [x \in (DOMAIN f) \cup {k} |-> IF x = k THEN v ELSE f[x]]
Drop(f, k) == [x \in (DOMAIN f) \ {k} |-> f[x]]

Init ==
  /\ file = (0 :> <<>>) /\ vis = (0 :> <<>>)
  /\ robj = (1 :> [seg |-> 0, head |-> TRUE])
  /\ readers = <<1>> /\ wr = 1
  /\ writerMu = "-" /\ readersW = "-" /\ readersR = {} /\ deleteMu = "-"
  /\ pc = [p \in Procs |-> "idle"]
  /\ loc = [p \in Procs |-> [x |-> 0]]
  /\ absLive = <<>> /\ absNext = 0
  /\ budget = [p \in Procs |-> CASE p = "P" -> MaxOff [] p = "D" -> NDel [] p = "G" -> NGet [] OTHER -> NCons]
  /\ hist = <<>>

CanR(p) == readersW = "-"
CanW(p) == readersW = "-" /\ readersR = {}

\* ------------------------------------------------------------------ Publish
PLock == /\ pc["P"] = "idle" /\ budget["P"] > 0 /\ writerMu = "-"
         /\ writerMu' = "P" /\ budget' = [budget EXCEPT !["P"] = @ - 1]
         /\ pc' = [pc EXCEPT !["P"] = IF Len(file[robj[wr].seg]) >= RollAt THEN "p_roll" ELSE "p_write"]
         /\ UNCHANGED <<file, vis, robj, readers, wr, readersW, readersR, deleteMu, loc, absLive, absNext>>

\* ReopenReader + openWriter: two new objects, new empty segment named after next
PRoll == /\ pc["P"] = "p_roll"
         /\ LET ob == robj[wr].seg
                nb == NextOfSeg(ob)
                oldR == NewId
                newR == NewId + 1
            IN /\ robj' = Ext(Ext(robj, oldR, [seg |-> ob, head |-> FALSE]), newR, [seg |-> nb, head |-> TRUE])
               /\ file' = Ext(file, nb, <<>>) /\ vis' = Ext(vis, nb, <<>>)
               /\ loc' = [loc EXCEPT !["P"] = [oldR |-> oldR, newR |-> newR]]
         /\ pc' = [pc EXCEPT !["P"] = "p_swap"]
         /\ UNCHANGED <<readers, wr, writerMu, readersW, readersR, deleteMu, absLive, absNext, budget>>

PSwap == /\ pc["P"] = "p_swap" /\ CanW("P")
         /\ readers' = Append([readers EXCEPT ![Len(readers)] = loc["P"].oldR], loc["P"].newR)
         /\ wr' = loc["P"].newR
         /\ pc' = [pc EXCEPT !["P"] = "p_write"]
         /\ UNCHANGED <<file, vis, robj, writerMu, readersW, readersR, deleteMu, loc, absLive, absNext, budget>>

PWrite == /\ pc["P"] = "p_write"
          /\ LET b == robj[wr].seg IN file' = [file EXCEPT ![b] = Append(@, NextOfSeg(b))]
          /\ pc' = [pc EXCEPT !["P"] = "p_index"]
          /\ UNCHANGED <<vis, robj, readers, wr, writerMu, readersW, readersR, deleteMu, loc, absLive, absNext, budget>>

\* index append = visibility = linearization point; result checked here
PIndex == /\ pc["P"] = "p_index"
          /\ LET b == robj[wr].seg
                 o == NextOfSeg(b)
             IN /\ vis' = [vis EXCEPT ![b] = Append(@, o)]
                /\ Assert(o = absNext, <<"PUBLISH-OFFSET", o, absNext>>)
                /\ absLive' = Append(absLive, o) /\ absNext' = absNext + 1
          /\ writerMu' = "-"
          /\ pc' = [pc EXCEPT !["P"] = "idle"]
          /\ UNCHANGED <<file, robj, readers, wr, readersW, readersR, deleteMu, loc, budget>>

\* ------------------------------------------------------------------ Consume
\* segment.Consume selection by base over the reader list
SegIdx(off) == IF off <= robj[readers[1]].seg THEN 1
               ELSE CHOOSE i \in 1..Len(readers) :
                      robj[readers[i]].seg <= off /\ (i = Len(readers) \/ robj[readers[i+1]].seg > off)

\* reader.Consume on object r: [err, next, msgs]  (maxCount unbounded)
RConsume(r, off) ==
  LET b == robj[r].seg
      its == vis[b]
      from == SelectSeq(its, LAMBDA o : o >= off)
  IN IF from # <<>> THEN [err |-> "", next |-> LastOf(from) + 1, msgs |-> from]
     ELSE IF robj[r].head /\ off <= NextOfSeg(b) THEN [err |-> "", next |-> NextOfSeg(b), msgs |-> <<>>]
     ELSE [err |-> IF its = <<>> THEN "Invalid" ELSE "AfterEnd", next |-> -3, msgs |-> <<>>]

LConsume(off) ==
  LET i == SegIdx(off)
      r == RConsume(readers[i], off)
  IN IF r.err = "AfterEnd" /\ i < Len(readers) THEN RConsume(readers[i+1], -2)
     ELSE IF r.err = "AfterEnd" THEN [r EXCEPT !.err = "Invalid"] ELSE r

IsPrefixOf(a, b) == Len(a) <= Len(b) /\ SubSeq(b, 1, Len(a)) = a
ConsumeOK(off, r) ==
  IF off > absNext THEN r.err = "Invalid"
  ELSE LET from == SelectSeq(absLive, LAMBDA o : o >= off) IN
       /\ r.err = ""
       /\ IF r.msgs # <<>> THEN IsPrefixOf(r.msgs, from) /\ r.next = LastOf(r.msgs) + 1
          ELSE /\ r.next <= absNext /\ \A o \in Range(from) : o >= r.next
               /\ (from = <<>> => r.next = absNext) /\ (r.next > off \/ r.next = absNext)

CLock(off) == /\ pc["C"] = "idle" /\ budget["C"] > 0 /\ CanR("C")
              /\ readersR' = readersR \cup {"C"}
              /\ budget' = [budget EXCEPT !["C"] = @ - 1]
              /\ loc' = [loc EXCEPT !["C"] = [off |-> off]]
              /\ pc' = [pc EXCEPT !["C"] = "c_read"]
              /\ UNCHANGED <<file, vis, robj, readers, wr, writerMu, readersW, deleteMu, absLive, absNext>>

CRead == /\ pc["C"] = "c_read"
         /\ Assert(ConsumeOK(loc["C"].off, LConsume(loc["C"].off)),
                   <<"CONSUME-NOT-LINEARIZABLE", loc["C"].off, LConsume(loc["C"].off), absLive, absNext>>)
         /\ readersR' = readersR \ {"C"}
         /\ pc' = [pc EXCEPT !["C"] = "idle"]
         /\ UNCHANGED <<file, vis, robj, readers, wr, writerMu, readersW, deleteMu, loc, absLive, absNext, budget>>

\* ---------------------------------------------------------------------- Get
\* segment.Get over the reader list + reader.Get on the object (log.go / log_reader.go), as in KlevSeg.ImplGet
Ok(o) == [err |-> "", off |-> o]
Er(e) == [err |-> e, off |-> -9]
RGet(r, off) ==
  LET its == vis[robj[r].seg] IN
  IF its = <<>> THEN Er("IndexEmpty")
  ELSE IF off = -2 THEN Ok(its[1])
  ELSE IF off = -1 THEN Ok(LastOf(its))
  ELSE IF off < its[1] THEN Er("NotFound")
  ELSE IF off > LastOf(its)
       THEN IF robj[r].head /\ off >= NextOfSeg(robj[r].seg) THEN Er("Invalid") ELSE Er("AfterEnd")
  ELSE IF off \in Range(its) THEN Ok(off) ELSE Er("NotFound")
LGet(off) ==
  LET n == Len(readers) first == robj[readers[1]].seg IN
  IF off >= 0 /\ off < first THEN Er(IF first = 0 THEN "Invalid" ELSE "NotFound")
  ELSE LET i == IF off = -2 THEN 1 ELSE IF off = -1 THEN n
                ELSE CHOOSE j \in 1..n : robj[readers[j]].seg <= off /\ (j = n \/ robj[readers[j+1]].seg > off)
           r == RGet(readers[i], off)
       IN IF r.err = "AfterEnd" THEN Er(IF i < n THEN "NotFound" ELSE "Invalid")
          ELSE IF r.err = "IndexEmpty"
               THEN IF off = -1 /\ i > 1 THEN RGet(readers[i - 1], off) ELSE Er("Invalid")
          ELSE r
GetOK(off, r) ==
  CASE off = -2 -> IF absLive = <<>> THEN r.err = "Invalid" ELSE r = Ok(absLive[1])
    [] off = -1 -> IF absLive = <<>> THEN r.err = "Invalid" ELSE r = Ok(LastOf(absLive))
    [] OTHER -> IF off \in Range(absLive) THEN r = Ok(off)
                ELSE IF off < absNext THEN r.err = "NotFound" ELSE r.err = "Invalid"
\* a complete Get call, between the steps of the others (it needs the read lock only)
GGet(off) == /\ budget["G"] > 0 /\ CanR("G")
             /\ Assert(GetOK(off, LGet(off)), <<"GET-NOT-LINEARIZABLE", off, LGet(off), absLive, absNext>>)
             /\ budget' = [budget EXCEPT !["G"] = @ - 1]
             /\ UNCHANGED <<file, vis, robj, readers, wr, writerMu, readersW, readersR, deleteMu, pc, loc, absLive, absNext>>

\* ------------------------------------------------------------------- Delete
\* offset sets travel through the schedule as bit masks
Mask(S) == FoldSet(LAMBDA o, acc : acc + 2 ^ o, 0, S)
DelSets == {S \in SUBSET (0..(MaxOff - 1)) : S # {} /\ Cardinality(S) <= MaxDel}
DStart(S) == /\ pc["D"] = "idle" /\ budget["D"] > 0 /\ deleteMu = "-"
             /\ deleteMu' = "D" /\ budget' = [budget EXCEPT !["D"] = @ - 1]
             /\ loc' = [loc EXCEPT !["D"] = [o |-> S]]
             /\ pc' = [pc EXCEPT !["D"] = "d_find"]
             /\ UNCHANGED <<file, vis, robj, readers, wr, writerMu, readersW, readersR, absLive, absNext>>

\* findDeleteReader under the read lock (atomic: RLock .. RUnlock)
DFind == /\ pc["D"] = "d_find" /\ CanR("D")
         /\ LET S == loc["D"].o  o == Min(S) IN
            IF o < robj[readers[1]].seg
            THEN /\ pc' = [pc EXCEPT !["D"] = "idle"] /\ deleteMu' = "-" /\ UNCHANGED loc   \* ErrNotFound
            ELSE /\ loc' = [loc EXCEPT !["D"] = [o |-> S, rdr |-> readers[SegIdx(o)]]]
                 /\ pc' = [pc EXCEPT !["D"] = "d_ph1"] /\ UNCHANGED deleteMu
         /\ UNCHANGED <<file, vis, robj, readers, wr, writerMu, readersW, readersR, absLive, absNext, budget>>

DPhase1 == /\ pc["D"] = "d_ph1" /\ writerMu = "-"
           /\ loc' = [loc EXCEPT !["D"] = [o |-> @.o, rdr |-> @.rdr, wasWriter |-> (wr = @.rdr)]]
           /\ pc' = [pc EXCEPT !["D"] = "d_rewrite"]
           /\ UNCHANGED <<file, vis, robj, readers, wr, writerMu, readersW, readersR, deleteMu, absLive, absNext, budget>>

\* Rewrite reads the FILE of the chosen object's segment without locks: every complete record that is in the
\* file NOW, also those appended after phase 1 (the rewrite limit taken in phase 1 only says from where on an
\* unreadable record is "being appended" rather than corrupt; a record is written in one step here, so the
\* limit has no counterpart in the model - a model with src cut at the limit was refuted by the schedule replay:
\* the real Delete went on where that model returned errSegmentChanged)
DRewrite == /\ pc["D"] = "d_rewrite"
            /\ LET l == loc["D"]
                   src == file[robj[l.rdr].seg]
                   surv == SelectSeq(src, LAMBDA x : x \notin l.o)
                   del == SelectSeq(src, LAMBDA x : x \in l.o)
               IN IF del = <<>>
                  THEN /\ pc' = [pc EXCEPT !["D"] = "idle"] /\ deleteMu' = "-" /\ UNCHANGED loc
                  ELSE /\ loc' = [loc EXCEPT !["D"] = [o |-> l.o, rdr |-> l.rdr, wasWriter |-> l.wasWriter,
                                                          surv |-> surv, del |-> del]]
                       /\ pc' = [pc EXCEPT !["D"] = "d_ph2"] /\ UNCHANGED deleteMu
            /\ UNCHANGED <<file, vis, robj, readers, wr, writerMu, readersW, readersR, absLive, absNext, budget>>

\* second writerMu section; head case takes the readers write lock too and swaps (LP)
DPhase2Head ==
  /\ pc["D"] = "d_ph2" /\ writerMu = "-" /\ wr = loc["D"].rdr /\ CanW("D")
  /\ LET l == loc["D"]
         b == robj[wr].seg
         n == Len(readers)
         nxt == NextOfSeg(b)
     IN IF Len(l.surv) + Len(l.del) # Len(vis[b])
        THEN UNCHANGED <<file, vis, robj, readers, wr, absLive>>              \* errSegmentChanged
        ELSE /\ absLive' = SelectSeq(absLive, LAMBDA x : x \notin Range(l.del))
             /\ IF l.surv = <<>>
                THEN LET w2 == NewId IN
                     /\ file' = Ext(Drop(file, b), nxt, <<>>) /\ vis' = Ext(Drop(vis, b), nxt, <<>>)
                     /\ robj' = Ext(robj, w2, [seg |-> nxt, head |-> TRUE])
                     /\ readers' = [readers EXCEPT ![n] = w2] /\ wr' = w2
                ELSE LET nb == l.surv[1]
                         tailGone == LastOf(l.del) = LastOf(vis[b])
                         f1 == Ext(Drop(file, b), nb, l.surv)
                         v1 == Ext(Drop(vis, b), nb, l.surv)
                     IN IF tailGone
                        THEN LET r2 == NewId  w2 == NewId + 1 IN
                             /\ file' = Ext(f1, nxt, <<>>) /\ vis' = Ext(v1, nxt, <<>>)
                             /\ robj' = Ext(Ext(robj, r2, [seg |-> nb, head |-> FALSE]), w2, [seg |-> nxt, head |-> TRUE])
                             /\ readers' = Append([readers EXCEPT ![n] = r2], w2) /\ wr' = w2
                        ELSE LET w2 == NewId IN
                             /\ file' = f1 /\ vis' = v1
                             /\ robj' = Ext(robj, w2, [seg |-> nb, head |-> TRUE])
                             /\ readers' = [readers EXCEPT ![n] = w2] /\ wr' = w2
  /\ pc' = [pc EXCEPT !["D"] = "idle"] /\ deleteMu' = "-"
  /\ UNCHANGED <<writerMu, readersW, readersR, loc, absNext, budget>>

DPhase2NotHead ==
  /\ pc["D"] = "d_ph2" /\ writerMu = "-" /\ wr # loc["D"].rdr
  /\ pc' = [pc EXCEPT !["D"] = IF loc["D"].wasWriter THEN "d_find" ELSE "d_reader"]
  /\ UNCHANGED <<file, vis, robj, readers, wr, writerMu, readersW, readersR, deleteMu, loc, absLive, absNext, budget>>

\* reader.Delete under the readers write lock (LP)
DReader ==
  /\ pc["D"] = "d_reader" /\ CanW("D")
  /\ LET l == loc["D"]
         b == robj[l.rdr].seg
         keep == SelectSeq(readers, LAMBDA r : robj[r].seg # b)
         pos == CHOOSE i \in 1..Len(readers) : robj[readers[i]].seg = b
     IN /\ absLive' = SelectSeq(absLive, LAMBDA x : x \notin Range(l.del))
        /\ IF l.surv = <<>>
           THEN /\ file' = Drop(file, b) /\ vis' = Drop(vis, b)
                /\ readers' = keep /\ UNCHANGED robj
           ELSE LET nb == l.surv[1] IN
                IF nb # b
                THEN LET r2 == NewId IN
                     /\ file' = Ext(Drop(file, b), nb, l.surv) /\ vis' = Ext(Drop(vis, b), nb, l.surv)
                     /\ robj' = Ext(robj, r2, [seg |-> nb, head |-> FALSE])
                     /\ readers' = [readers EXCEPT ![pos] = r2]
                ELSE \* same base: override, and the code returns the object it was called on
                     LET r2 == IF FixStale THEN NewId ELSE l.rdr IN
                     /\ file' = [file EXCEPT ![b] = l.surv] /\ vis' = [vis EXCEPT ![b] = l.surv]
                     /\ robj' = IF FixStale THEN Ext(robj, r2, [seg |-> b, head |-> FALSE]) ELSE robj
                     /\ readers' = [readers EXCEPT ![pos] = r2]
  /\ pc' = [pc EXCEPT !["D"] = "idle"] /\ deleteMu' = "-"
  /\ UNCHANGED <<wr, writerMu, readersW, readersR, loc, absNext, budget>>

\* every step also records itself in the schedule (hist)
Next == \/ (Log("P", "PLock", 0) /\ PLock) \/ (Log("P", "PRoll", 0) /\ PRoll) \/ (Log("P", "PSwap", 0) /\ PSwap)
        \/ (Log("P", "PWrite", 0) /\ PWrite) \/ (Log("P", "PIndex", 0) /\ PIndex)
        \/ (\E off \in -2..(MaxOff + 1) : Log("C", "CLock", off) /\ CLock(off)) \/ (Log("C", "CRead", 0) /\ CRead)
        \/ (\E off \in -2..MaxOff : Log("G", "GGet", off) /\ GGet(off))
        \/ (\E S \in DelSets : Log("D", "DStart", Mask(S)) /\ DStart(S)) \/ (Log("D", "DFind", 0) /\ DFind)
        \/ (Log("D", "DPhase1", 0) /\ DPhase1) \/ (Log("D", "DRewrite", 0) /\ DRewrite)
        \/ (Log("D", "DPhase2Head", 0) /\ DPhase2Head) \/ (Log("D", "DPhase2NotHead", 0) /\ DPhase2NotHead)
        \/ (Log("D", "DReader", 0) /\ DReader)
Spec == Init /\ [][Next]_vars

\* sequential sanity: whenever everybody is idle, a full scan equals the abstract log
RECURSIVE ScanFrom(_, _)
ScanFrom(off, fuel) == IF fuel = 0 THEN <<-99>> ELSE
                       LET r == LConsume(off) IN
                       IF r.err # "" THEN <<-98>>
                       ELSE IF r.msgs = <<>> THEN (IF r.next = off \/ r.next >= absNext THEN <<>> ELSE ScanFrom(r.next, fuel - 1))
                       ELSE r.msgs \o ScanFrom(r.next, fuel - 1)
Quiescent == \A p \in Procs : pc[p] = "idle"
QuiescentOK == Quiescent => ScanFrom(-2, 10) = absLive
HeadFlagOK == \A i \in 1..Len(readers) : robj[readers[i]].head = (i = Len(readers))
=============================================================================
