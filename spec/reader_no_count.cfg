SPECIFICATION Spec
CONSTANTS
  Consumers = {"c1", "c2"}
  NCalls = 2
  NGC = 2
  IncLate = FALSE
  NoCountRecheck = TRUE
  NoRecheck = FALSE
INVARIANTS NoUseAfterClose InuseExact CurrentOpen NoLeak MutexSane
