SPECIFICATION Spec
CONSTANTS
  MaxRecs = 4
INVARIANTS RecoverInv CheckInv AfterRecover Idempotent NeverJunk
CHECK_DEADLOCK FALSE
