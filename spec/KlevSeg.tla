------------------------------ MODULE KlevSeg ------------------------------
(* Segment-level, operation-atomic, IMPLEMENTATION-SHAPED model of klevdb.    *)
(*                                                                            *)
(* disk  = what segment.Find sees: a sequence of segments sorted by base, each*)
(*         [base, ver, recs, ix] with ix = [present, ver, ts] (the timestamps *)
(*         stored in the index file; offsets/positions/hashes are functions of*)
(*         recs).  Sizes are the real byte sizes, so Rollover, Stat, Size and *)
(*         DeletedSize are the numbers the code computes.                     *)
(* h     = the open handle (mode, options, in-memory next / nextTime).        *)
(* pub, gone = ghost variables: everything ever published / reported deleted. *)
(* hist  = history variable (hidden by VIEW) used to generate replayable      *)
(*         histories for the real code (Gen.tla).                             *)
(*                                                                            *)
(* Every public operation is one action transcribed from the code path;       *)
(* queries (Consume, Get, GetByKey, ConsumeByKey, GetByTime, Stat) are        *)
(* OPERATORS transcribed from the code and checked in every reachable state,  *)
(* for every argument in a range, against the property-level predicates of    *)
(* KlevAbs.  The model describes the code WITH the fix: commits listed in     *)
(* /verif/known_findings.json.                                                *)
EXTENDS KlevAbs, TLC

CONSTANTS KeySet,      \* model keys (strings); "n" is the nil key
          HashOf,      \* key -> hash class (equal for colliding keys)
          KLenOf,      \* key -> byte length
          TimeSet,     \* message times
          VLens,       \* value lengths (0 = no value)
          MaxOff,      \* bound on the number of messages ever published
          MaxBatch,
          Rollovers, Versions,
          KeyIndex, TimeIndex,
          MaxSets,     \* bound on the size of a Delete set
          OptKeep, OptEager, OptCheck, OptRecover,   \* sets of BOOLEAN to draw from
          AllowRO, AllowRmIndex, AllowMigrate

VARIABLES disk, h, pub, gone, hist
vars == <<disk, h, pub, gone, hist>>
view == <<disk, h, pub, gone>>

Max2(a, b) == IF a >= b THEN a ELSE b
Par == [times |-> TimeIndex, keys |-> KeyIndex]
ISize == ItemSize(Par)
IdxHeader(v) == IF v = 2 THEN 8 ELSE 0

RECURSIVE SumRec(_, _)
SumRec(v, recs) == IF recs = <<>> THEN 0 ELSE RecSize(Head(recs), v) + SumRec(v, Tail(recs))
LogSize(s) == LogHeader(s.ver) + SumRec(s.ver, s.recs)
IdxSize(s) == IF s.ix.present THEN IdxHeader(s.ix.ver) + ISize * Len(s.recs) ELSE 0

\* index timestamps derived from the records, starting from prev (params.NewItem: max(time, prev))
RECURSIVE DeriveTs(_, _)
DeriveTs(recs, prev) ==
  IF recs = <<>> THEN <<>>
  ELSE LET t == IF TimeIndex THEN Max2(Head(recs).t, prev) ELSE 0
       IN <<t>> \o DeriveTs(Tail(recs), t)

NoIx == [present |-> FALSE, ver |-> 0, ts |-> <<>>]
Ix(v, ts) == [present |-> TRUE, ver |-> v, ts |-> ts]
Seg(b, v, recs, ix) == [base |-> b, ver |-> v, recs |-> recs, ix |-> ix]
EmptySeg(b, v) == Seg(b, v, <<>>, Ix(v, <<>>))

Closed == [mode |-> "closed"]
IsRW == h.mode = "rw"
IsOpen == h.mode \in {"rw", "ro"}

\* timestamps a reader works with: the index file if present, else the rebuilt index
EffTs(s) == IF s.ix.present THEN s.ix.ts ELSE DeriveTs(s.recs, 0)

-----------------------------------------------------------------------------
Init == /\ disk = <<>> /\ h = Closed /\ pub = <<>> /\ gone = {} /\ hist = <<>>

Opts == [rollover : Rollovers, newver : Versions, keep : OptKeep, eager : OptEager,
         check : OptCheck, recover : OptRecover]

\* segment.Check on an undamaged log: fails iff an index file exists and differs from the derived one
CheckFails(s) == s.ix.present /\ s.ix.ts # DeriveTs(s.recs, 0)
\* segment.Recover on an undamaged log: rewrites a differing index (in the version it had)
RecoverSeg(s) == IF CheckFails(s) THEN [s EXCEPT !.ix = Ix(s.ix.ver, DeriveTs(s.recs, 0))] ELSE s
\* segment.Migrate: no-op for the same version, else log + index rewritten in version v
MigrateSeg(s, v) == IF s.ver = v THEN s ELSE Seg(s.base, v, s.recs, Ix(v, DeriveTs(s.recs, 0)))

\* openWriter on an existing head file
OpenHead(s, o) ==
  LET ver == IF LogSize(s) = 0 THEN o.newver ELSE s.ver        \* empty file gets the new version's header
      ix == IF s.recs # <<>>
            THEN IF s.ix.present THEN s.ix ELSE Ix(o.newver, DeriveTs(s.recs, 0))   \* ReindexAndReadIndex
            ELSE IF s.ix.present /\ IdxHeader(s.ix.ver) > 0 THEN s.ix ELSE Ix(o.newver, <<>>)
  IN Seg(s.base, ver, s.recs, ix)

HeadNext(s) == IF s.recs = <<>> THEN s.base ELSE LastOf(s.recs).off + 1
HeadTime(s) == IF s.recs = <<>> THEN 0 ELSE LastOf(s.ix.ts)

OpenRW(o) ==
  /\ h.mode = "closed"
  /\ hist' = Append(hist, [op |-> "open", o |-> o, ro |-> FALSE])
  /\ UNCHANGED <<pub, gone>>
  /\ IF disk = <<>>
     THEN /\ disk' = <<EmptySeg(0, o.newver)>>
          /\ h' = [mode |-> "rw", o |-> o, next |-> 0, nextTime |-> 0]
     ELSE LET n == Len(disk) IN
          IF (~o.recover) /\ o.check /\ CheckFails(disk[n])
          THEN UNCHANGED <<disk, h>>           \* Open fails (and releases the lock)
          ELSE LET d1 == IF o.recover THEN [disk EXCEPT ![n] = RecoverSeg(disk[n])] ELSE disk
                   d2 == IF o.eager THEN [i \in 1..n |-> MigrateSeg(d1[i], o.newver)] ELSE d1
                   hd == OpenHead(d2[n], o)
               IN /\ disk' = [d2 EXCEPT ![n] = hd]
                  /\ h' = [mode |-> "rw", o |-> o, next |-> HeadNext(hd), nextTime |-> HeadTime(hd)]

OpenRO(o) ==
  /\ AllowRO /\ h.mode = "closed"
  /\ hist' = Append(hist, [op |-> "open", o |-> o, ro |-> TRUE])
  /\ UNCHANGED <<pub, gone, disk>>
  /\ IF disk # <<>> /\ (o.check \/ o.recover) /\ CheckFails(disk[Len(disk)])
     THEN UNCHANGED h
     ELSE h' = [mode |-> "ro", o |-> o, next |-> IF disk = <<>> THEN 0 ELSE HeadNext(disk[Len(disk)]), nextTime |-> 0]

Close == /\ IsOpen /\ h' = Closed
         /\ hist' = Append(hist, [op |-> "close"])
         /\ UNCHANGED <<disk, pub, gone>>

\* the user removes an index file while the log is closed
RemoveIndex(i) == /\ AllowRmIndex /\ h.mode = "closed" /\ i \in 1..Len(disk) /\ disk[i].ix.present
                  /\ disk' = [disk EXCEPT ![i].ix = NoIx]
                  /\ hist' = Append(hist, [op |-> "rmindex", seg |-> i])
                  /\ UNCHANGED <<h, pub, gone>>

\* a read touches a segment without index file: it is rebuilt and written (also by read-only handles)
LazyIndex(i) == /\ IsOpen /\ i \in 1..Len(disk) /\ ~disk[i].ix.present
                /\ disk' = [disk EXCEPT ![i].ix = Ix(h.o.newver, DeriveTs(disk[i].recs, 0))]
                /\ hist' = Append(hist, [op |-> "touch", seg |-> i])
                /\ UNCHANGED <<h, pub, gone>>

MigrateDir(v) == /\ AllowMigrate /\ h.mode = "closed" /\ disk # <<>>
                 /\ disk' = [i \in 1..Len(disk) |-> MigrateSeg(disk[i], v)]
                 /\ hist' = Append(hist, [op |-> "migrate", v |-> v])
                 /\ UNCHANGED <<h, pub, gone>>

MsgIn == [key : KeySet, t : TimeSet, vlen : VLens]
Mk(in, off) == [off |-> off, key |-> in.key, val |-> IF in.vlen = 0 THEN 0 ELSE off + 1, t |-> in.t,
                klen |-> KLenOf[in.key], vlen |-> in.vlen]
StampAll(batch, off) == [i \in 1..Len(batch) |-> Mk(batch[i], off + i - 1)]

Publish(batch) ==
  /\ IsRW
  /\ h.next + Len(batch) <= MaxOff
  /\ LET n == Len(disk)
         roll == disk[n].recs # <<>> /\ LogSize(disk[n]) > h.o.rollover     \* writer.NeedsRollover
         d1 == IF roll THEN Append(disk, EmptySeg(h.next, h.o.newver)) ELSE disk
         m == Len(d1)
         recs == StampAll(batch, h.next)
         ts == DeriveTs(recs, h.nextTime)
         hd == [d1[m] EXCEPT !.recs = @ \o recs, !.ix.ts = @ \o ts]
     IN /\ disk' = [d1 EXCEPT ![m] = hd]
        /\ h' = [h EXCEPT !.next = @ + Len(batch), !.nextTime = IF batch = <<>> THEN @ ELSE LastOf(ts)]
        /\ pub' = pub \o recs
        /\ hist' = Append(hist, [op |-> "publish", batch |-> batch])
        /\ UNCHANGED gone

\* segment.Get over the segment list: the segment with the largest base <= off; 0 = before the first
SegOf(d, off) == IF off < d[1].base THEN 0
                 ELSE CHOOSE i \in 1..Len(d) : d[i].base <= off /\ (i = Len(d) \/ d[i+1].base > off)

Keep(recs, S) == SelectSeq(recs, LAMBDA m : m.off \notin S)
Drop(recs, S) == SelectSeq(recs, LAMBDA m : m.off \in S)
Splice(d, i, repl) == SubSeq(d, 1, i-1) \o repl \o SubSeq(d, i+1, Len(d))

\* the result of one Delete call: [err, deleted, size] and the new disk / handle
DeleteResult(S) ==
  LET lo == Min(S)
      i == SegOf(disk, lo)
  IN IF i = 0 THEN [err |-> "NotFound", deleted |-> <<>>, size |-> 0, disk |-> disk, h |-> h]
     ELSE LET s == disk[i]
              surv == Keep(s.recs, S)
              del == Drop(s.recs, S)
              rv == IF h.o.keep THEN s.ver ELSE h.o.newver
              ns == Seg(IF surv = <<>> THEN s.base ELSE surv[1].off, rv, surv, Ix(rv, DeriveTs(surv, 0)))
              isHead == i = Len(disk)
              fresh == EmptySeg(h.next, h.o.newver)
              size == SumOver(del, LAMBDA m : RecSize(m, s.ver) + ISize)
              res(d, hh) == [err |-> "", deleted |-> del, size |-> size, disk |-> d, h |-> hh]
          IN IF del = <<>> THEN [err |-> "", deleted |-> <<>>, size |-> 0, disk |-> disk, h |-> h]
             ELSE IF ~isHead THEN res(Splice(disk, i, IF surv = <<>> THEN <<>> ELSE <<ns>>), h)
             ELSE IF surv = <<>> THEN res(Splice(disk, i, <<fresh>>), h)
             ELSE IF LastOf(del).off = LastOf(s.recs).off
                  THEN res(Splice(disk, i, <<ns, fresh>>), h)          \* tail deleted: reader + fresh empty head
                  ELSE res(Splice(disk, i, <<ns>>), [h EXCEPT !.nextTime = LastOf(ns.ix.ts)])

Delete(S) ==
  /\ IsRW /\ S # {}
  /\ LET r == DeleteResult(S) IN
     /\ disk' = r.disk /\ h' = r.h
     /\ gone' = gone \cup Offs(r.deleted)
  /\ hist' = Append(hist, [op |-> "delete", S |-> S])
  /\ UNCHANGED pub

Batches == UNION {[1..n -> MsgIn] : n \in 0..MaxBatch}
DelSets == {S \in SUBSET (0..MaxOff) : S # {} /\ Cardinality(S) <= MaxSets}

Next == \/ \E o \in Opts : OpenRW(o) \/ OpenRO(o)
        \/ Close
        \/ \E i \in 1..Len(disk) : RemoveIndex(i) \/ LazyIndex(i)
        \/ \E v \in Versions : MigrateDir(v)
        \/ \E b \in Batches : Publish(b)
        \/ \E S \in DelSets : Delete(S)

Spec == Init /\ [][Next]_vars

-----------------------------------------------------------------------------
\* the refinement mapping to the property-level state
Flat == FoldLeft(LAMBDA acc, s : acc \o s.recs, <<>>, disk)
Live == SelectSeq(pub, LAMBDA m : m.off \notin gone)
ANext == Len(pub)

Fidelity == Flat = Live                                                        \* C01
NextOK == IsRW => h.next = ANext                                               \* C02
NextDerivable == disk # <<>> => HeadNext(disk[Len(disk)]) = ANext              \* C02 across restart
Sorted == \A i \in 1..(Len(disk)-1) : /\ disk[i].base < disk[i+1].base
                                      /\ disk[i].recs # <<>>
                                      /\ LastOf(disk[i].recs).off < disk[i+1].base
FirstIsBase == \A i \in 1..Len(disk) : disk[i].recs # <<>> => disk[i].recs[1].off = disk[i].base
\* C11: an index file that exists equals the derived index (timestamps: when times never decrease)
IndexDerived == \A i \in 1..Len(disk) :
   (disk[i].ix.present /\ NonDecreasingTimes(pub)) => disk[i].ix.ts = DeriveTs(disk[i].recs, 0)
IndexLen == \A i \in 1..Len(disk) : disk[i].ix.present => Len(disk[i].ix.ts) = Len(disk[i].recs)
NextMonotone == [][Len(pub') >= Len(pub)]_vars
\* C11 / C17 for arbitrary time orders: an index file's timestamps are the running maximum of the segment's
\* message times from SOME carried start (never an arbitrary sequence)
IxRunInv == \A i \in 1..Len(disk) : disk[i].ix.present =>
               \E prev \in {0} \cup TimeSet : disk[i].ix.ts = DeriveTs(disk[i].recs, prev)

\* ---- C17: the version rules, judged on every step (the same predicate the trace specification applies
\* to the projected layouts of the real directory)
LayOf(d) == [i \in 1..Len(d) |-> [base |-> d[i].base, ver |-> d[i].ver,
                                  offs |-> [j \in 1..Len(d[i].recs) |-> d[i].recs[j].off]]]
VersionStep ==
  hist' # hist =>
    LET ev == LastOf(hist') b == LayOf(disk) a == LayOf(disk') IN
    CASE ev.op = "migrate" -> VersionsOK(b, a, "migrate", 0, FALSE, FALSE, ev.v)
      [] ev.op = "open" -> (h'.mode = "rw" => VersionsOK(b, a, "open", ev.o.newver, ev.o.keep, ev.o.eager, 0))
      [] ev.op = "publish" -> VersionsOK(b, a, "publish", h.o.newver, h.o.keep, FALSE, 0)
      [] ev.op = "delete" -> VersionsOK(b, a, "delete", h.o.newver, h.o.keep, FALSE, 0)
      [] OTHER -> TRUE
VersionRules == [][VersionStep]_vars
\* nothing but the version (and the index files) changes in a migration, and twice is the same as once
MigrateStep ==
  (hist' # hist /\ LastOf(hist').op = "migrate") =>
     LET v == LastOf(hist').v IN
     /\ Len(disk') = Len(disk)
     /\ \A i \in 1..Len(disk) : disk'[i].base = disk[i].base /\ disk'[i].recs = disk[i].recs
     /\ [i \in 1..Len(disk') |-> MigrateSeg(disk'[i], v)] = disk'
MigrateRules == [][MigrateStep]_vars
\* read-only handles and failed opens never change a log file or the message content of the directory
ReadOnlyStep == (h.mode = "ro" \/ (hist' # hist /\ LastOf(hist').op = "open" /\ h'.mode # "rw")) =>
                   LayOf(disk') = LayOf(disk)
ReadOnlyRules == [][ReadOnlyStep]_vars

-----------------------------------------------------------------------------
\* ---- queries, transcribed from log.go / log_reader.go / pkg/index / pkg/segment

N == Len(disk)
\* the reader list: read-only handle on an empty directory has one phantom segment
RdDisk == IF disk = <<>> THEN <<Seg(0, 2, <<>>, NoIx)>> ELSE disk
RN == Len(RdDisk)
IsHeadSeg(i) == i = RN
SegNextOff(s) == IF s.recs = <<>> THEN s.base ELSE LastOf(s.recs).off + 1

\* segment.Consume: which segment a Consume starts in
SegConsume(d, off) == IF off = OffsetOldest THEN 1 ELSE IF off = OffsetNewest THEN Len(d)
                      ELSE IF off <= d[1].base THEN 1
                      ELSE CHOOSE i \in 1..Len(d) : d[i].base <= off /\ (i = Len(d) \/ d[i+1].base > off)

Take(s, n) == SubSeq(s, 1, IF Len(s) < n THEN Len(s) ELSE n)

\* reader.Consume on segment i: [err, next, msgs]; err "AfterEnd" is index.ErrOffsetAfterEnd
RdConsume(i, off, max) ==
  LET s == RdDisk[i] nx == SegNextOff(s) IN
  IF off = OffsetNewest THEN [err |-> "", next |-> nx, msgs |-> <<>>]
  ELSE IF s.recs = <<>> \/ (off >= 0 /\ off > LastOf(s.recs).off)
       THEN IF IsHeadSeg(i) /\ off <= nx THEN [err |-> "", next |-> nx, msgs |-> <<>>]
            ELSE [err |-> IF s.recs = <<>> THEN "InvalidOffset" ELSE "AfterEnd", next |-> -3, msgs |-> <<>>]
       ELSE LET ms == Take(From(s.recs, off), max)
            IN [err |-> "", next |-> LastOf(ms).off + 1, msgs |-> ms]

ImplConsume(off, max) ==
  LET i == SegConsume(RdDisk, off)
      r == RdConsume(i, off, max)
  IN IF r.err = "AfterEnd" /\ i < RN THEN RdConsume(i + 1, OffsetOldest, max)
     ELSE IF r.err = "AfterEnd" THEN [r EXCEPT !.err = "InvalidOffset"] ELSE r

\* reader.Get on segment i: [err, msg]
RdGet(i, off) ==
  LET s == RdDisk[i] IN
  IF s.recs = <<>> THEN [err |-> "IndexEmpty"]
  ELSE IF off = OffsetOldest THEN [err |-> "", msg |-> s.recs[1]]
  ELSE IF off = OffsetNewest THEN [err |-> "", msg |-> LastOf(s.recs)]
  ELSE IF off < s.recs[1].off THEN [err |-> "NotFound"]
  ELSE IF off > LastOf(s.recs).off
       THEN IF IsHeadSeg(i) /\ off >= SegNextOff(s) THEN [err |-> "InvalidOffset"] ELSE [err |-> "AfterEnd"]
  ELSE IF \E m \in Range(s.recs) : m.off = off
       THEN [err |-> "", msg |-> CHOOSE m \in Range(s.recs) : m.off = off]
       ELSE [err |-> "NotFound"]

ImplGet(off) ==
  LET d == RdDisk IN
  IF off >= 0 /\ off < d[1].base
  THEN [err |-> IF d[1].base = 0 THEN "InvalidOffset" ELSE "NotFound"]
  ELSE LET i == IF off = OffsetOldest THEN 1 ELSE IF off = OffsetNewest THEN RN ELSE SegOf(d, off)
           r == RdGet(i, off)
       IN IF r.err = "AfterEnd" THEN [err |-> IF i < RN THEN "NotFound" ELSE "InvalidOffset"]
          ELSE IF r.err = "IndexEmpty"
               THEN IF off = OffsetNewest /\ i > 1 THEN RdGet(i - 1, off)     \* empty head: previous segment
                    ELSE [err |-> "InvalidOffset"]
          ELSE r

\* key lookups: the index yields the positions of all records whose key has the same hash;
\* the reader filters them with bytes.Equal
SameHash(s, k) == SelectSeq(s.recs, LAMBDA m : HashOf[m.key] = HashOf[k])
RECURSIVE GetByKeyFrom(_, _)
GetByKeyFrom(i, k) ==
  IF i = 0 THEN [err |-> "NotFound"]
  ELSE LET c == SelectSeq(SameHash(RdDisk[i], k), LAMBDA m : m.key = k)
       IN IF c # <<>> THEN [err |-> "", msg |-> LastOf(c)] ELSE GetByKeyFrom(i - 1, k)
ImplGetByKey(k) == IF ~KeyIndex THEN [err |-> "NoIndex"] ELSE GetByKeyFrom(RN, k)

RdConsumeByKey(i, k, off, max) ==
  LET s == RdDisk[i] nx == SegNextOff(s) IN
  IF off = OffsetNewest THEN [err |-> "", next |-> nx, msgs |-> <<>>]
  ELSE LET c == SelectSeq(SameHash(s, k), LAMBDA m : m.off >= off /\ m.key = k)
           ms == Take(c, max)
       IN IF ms = <<>> THEN [err |-> "", next |-> nx, msgs |-> <<>>]
          ELSE [err |-> "", next |-> LastOf(ms).off + 1, msgs |-> ms]
RECURSIVE ConsumeByKeyFrom(_, _, _, _)
ConsumeByKeyFrom(i, k, off, max) ==
  LET r == RdConsumeByKey(i, k, off, max)
  IN IF r.msgs # <<>> \/ i >= RN THEN r ELSE ConsumeByKeyFrom(i + 1, k, OffsetOldest, max)
ImplConsumeByKey(k, off, max) ==
  IF ~KeyIndex THEN [err |-> "NoIndex"]
  ELSE ConsumeByKeyFrom(SegConsume(RdDisk, off), k, off, max)

\* index.Time on the timestamps of segment i: -1 empty | -2 before start | -3 after end | position (1-based)
IxTime(i, ts) ==
  LET s == RdDisk[i] tt == EffTs(s) IN
  IF tt = <<>> THEN -1
  ELSE IF ts < tt[1] THEN -2
  ELSE IF ts = tt[1] THEN 1
  ELSE IF LastOf(tt) < ts THEN -3
  ELSE CHOOSE j \in 1..Len(tt) : tt[j] >= ts /\ \A q \in 1..(j-1) : tt[q] < ts
RdGetOldest(i) == IF RdDisk[i].recs = <<>> THEN [err |-> "InvalidOffset"] ELSE [err |-> "", msg |-> RdDisk[i].recs[1]]
RECURSIVE GetByTimeFrom(_, _)
GetByTimeFrom(i, ts) ==
  IF i = 0 THEN [err |-> "NotFound"]
  ELSE LET p == IxTime(i, ts) IN
       IF p = -1 THEN IF i = 1 THEN [err |-> "InvalidOffset"] ELSE GetByTimeFrom(i - 1, ts)
       ELSE IF p = -2 THEN IF i = 1 THEN RdGetOldest(1) ELSE GetByTimeFrom(i - 1, ts)
       ELSE IF p = -3
            THEN IF i < RN
                 THEN IF RdDisk[i + 1].recs = <<>> THEN [err |-> "NotFound"] ELSE RdGetOldest(i + 1)
                 ELSE [err |-> "NotFound"]
       ELSE IF i > 1 /\ RdDisk[i].recs[p].off = RdDisk[i].base
            THEN GetByTimeFrom(i - 1, ts)         \* first message of the segment: look at the previous one too
            ELSE [err |-> "", msg |-> RdDisk[i].recs[p]]
ImplGetByTime(ts) == IF ~TimeIndex THEN [err |-> "NoIndex"] ELSE GetByTimeFrom(RN, ts)

\* Stat: per segment the log file size plus the index file size, message count from the index file
\* (a missing index file counts 0 bytes and its messages are counted from the log: segment.Stat)
ImplStat == [err |-> "", segments |-> N, messages |-> Len(Flat),
             size |-> FoldLeft(LAMBDA acc, s : acc + LogSize(s) + IdxSize(s), 0, disk)]

-----------------------------------------------------------------------------
\* ---- the property-level predicates as invariants over the implementation-shaped queries
OffRange == (0 - 5)..(MaxOff + 2)
MaxRange == 1..(MaxOff + 1)

ConsumeInv == IsOpen => \A off \in OffRange : \A max \in MaxRange :
                 ConsumeOK(Live, ANext, off, max, ImplConsume(off, max))
GetInv == IsOpen => \A off \in (0 - 2)..(MaxOff + 2) : GetOK(Live, ANext, off, ImplGet(off))
GetByKeyInv == IsOpen => \A k \in KeySet : GetByKeyOK(Live, KeyIndex, k, ImplGetByKey(k))
ConsumeByKeyInv == IsOpen => \A k \in KeySet : \A off \in (0 - 2)..(MaxOff + 1) : \A max \in 1..3 :
                      ConsumeByKeyOK(Live, ANext, KeyIndex, k, off, max, ImplConsumeByKey(k, off, max))
TimeRange == (Min(TimeSet) - 1)..(Max(TimeSet) + 1)
GetByTimeInv == (IsOpen /\ NonDecreasingTimes(pub)) =>
                   \A t \in TimeRange : GetByTimeOK(Live, TimeIndex, t, ImplGetByTime(t))
\* cursor iteration: feeding the returned offset back from OffsetOldest visits Live exactly once, ends at ANext
RECURSIVE Iterate(_, _, _)
Iterate(off, max, fuel) ==
  LET r == ImplConsume(off, max) IN
  IF fuel = 0 \/ r.err # "" THEN [msgs |-> <<>>, end |-> -99]
  ELSE IF r.msgs = <<>> /\ r.next = off THEN [msgs |-> <<>>, end |-> off]
  ELSE LET rest == Iterate(r.next, max, fuel - 1) IN [msgs |-> r.msgs \o rest.msgs, end |-> rest.end]
ScanInv == IsOpen => \A max \in {1, 2, MaxOff + 1} :
              LET it == Iterate(OffsetOldest, max, 2 * MaxOff + 4) IN it.msgs = Live /\ it.end = ANext
\* C13: Stat = the live message count and the bytes of all segment files
StatInv == IsOpen => StatOK(Live, Len(disk), FoldLeft(LAMBDA acc, s : acc + LogSize(s) + IdxSize(s), 0, disk), ImplStat)
\* Delete, judged on the enabled transitions
DeleteInv == IsRW => \A S \in DelSets :
                LET r == DeleteResult(S) IN
                DeleteOK(Live, [o \in 0..MaxOff |-> IF \E i \in 1..N : \E m \in Range(disk[i].recs) : m.off = o
                                                   THEN disk[CHOOSE i \in 1..N : \E m \in Range(disk[i].recs) : m.off = o].ver
                                                   ELSE 0],
                         Par, S, r)
=============================================================================
