---------------------------- MODULE TraceFrames ----------------------------
(* Trace validation for C07 (Recover / Check on damaged head segments) and    *)
(* C14 (reads of damaged V2 logs). Files are projected to frames by the       *)
(* reference codec; TLC judges the projections with Frames / KlevAbs.         *)
EXTENDS Frames, KlevAbs, Json, IOUtils

Trace == ndJsonDeserialize(IOEnv.TRACE)
VARIABLE l
e == Trace[l]
Step == l <= Len(Trace) /\ l' = l + 1
TInit == l = 1 /\ cur = [n |-> 0, junk |-> "none", ix |-> "absent"] /\ recovered = FALSE

Config == Step /\ e.ev = "config"
Reset == Step /\ e.ev = "reset"
\* C07
RecoverEv == /\ Step /\ e.ev = "recover"
             /\ (e.err = "" /\ e.recsSame /\ RecoverOK(e.before, e.after, e.logSame, e.ixSame)) = TRUE
CheckEv == Step /\ e.ev = "check" /\ (CheckOK(e.f, e.err)) = TRUE
CheckAfter == Step /\ e.ev = "checkafter" /\ e.err = ""
\* C14
OpenEv == Step /\ e.ev = "dopen" /\ (e.err = "" \/ e.headDamaged) = TRUE
OpenKF == IF Len(Trace) > 0 /\ Trace[1].ev = "config" THEN Range(Trace[1].kf) ELSE {}
\* KF-C14-1 (open known finding): the log file of the segment with base offset 0 zero-filled from byte 0 loses its
\* V2 file header, is taken for a header-less V1 file, and zero bytes parse as valid empty V1 records
\* (the signature is the damage itself: the answers then read segment 0 as empty V1 records, without panicking)
KFZeroHead == "KF-C14-1" \in OpenKF /\ e.zerohead /\ e.r.err # "Panic"
ReadEv == /\ Step /\ e.ev = "dread"
          /\ IF DamagedReadOK(e.expected, e.touches, e.other, e.r) /\ AllocOK(e.alloc, e.fileBytes) THEN TRUE
             ELSE KFZeroHead /\ PrintT(<<"KF-HIT", {"KF-C14-1"}, l>>)

\* a file cut short: whatever is returned is a published message, unchanged; no panic
TruncEv == /\ Step /\ e.ev = "dtrunc"
           /\ (e.r.err # "Panic" /\ (\A i \in 1..Len(e.r.msgs) : e.r.msgs[i] \in Range(e.all))
                /\ AllocOK(e.alloc, e.fileBytes)) = TRUE

TNext == (Config \/ Reset \/ RecoverEv \/ CheckEv \/ CheckAfter \/ OpenEv \/ ReadEv \/ TruncEv) /\ UNCHANGED vars
TSpec == TInit /\ [][TNext]_<<l, vars>>
Accepted == /\ PrintT(<<"TRACE-DEPTH", TLCGet("stats").diameter - 1, Len(Trace)>>)
            /\ TLCGet("stats").diameter - 1 = Len(Trace)
=============================================================================
