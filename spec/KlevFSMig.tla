----------------------------- MODULE KlevFSMig -----------------------------
(* C05 ("reopen with migrate"), design level: KlevFS plus format migration.     *)
(* Segment.Migrate as a plan, per segment whose log is in the other format:     *)
(*   remove the index (so that it can only be rebuilt) -> [remove a stale       *)
(*   .log.migrate] -> create .log.migrate in the new format, copy the records,  *)
(*   fsync -> rename it over the log -> index.Write: temp file, items, fsync,   *)
(*   rename over the index -> dirsync                                           *)
(* klevdb.Migrate / EagerVersionMigrate run it for every segment in order.      *)
(* A crash is a prefix of the whole plan (torn appends included); the image is  *)
(* reopened with Recover (which only looks at the head segment).  CrashM1 /     *)
(* CrashM2: every image recovers to the same messages with all views agreeing,  *)
(* recovering again changes nothing, it can be appended to, and the migration   *)
(* run again completes it.                                                      *)
(* Negative control KeepIndex (seeded change S69: "the rename replaces the      *)
(* index anyway"): a crash between the two renames of a NON-head segment leaves *)
(* the new-format log next to the old index; Recover never looks there.         *)
EXTENDS KlevFS

CONSTANTS KeepIndex

MgLog(b) == <<b, "log", "mg">>
TmpIdx(b) == <<b, "index", "tmp">>

PlanMigrateSeg(d, b, v) ==
  LET f == d[LogN(b)] IN
  IF f.ver = v THEN <<>>
  ELSE (IF Exists(d, IdxN(b)) /\ ~KeepIndex THEN <<Rem(IdxN(b))>> ELSE <<>>)
       \o (IF Exists(d, MgLog(b)) THEN <<Rem(MgLog(b))>> ELSE <<>>)
       \o CreateV(MgLog(b), v) \o Apps(MgLog(b), f.data) \o <<Fsync(MgLog(b))>>
       \o <<Ren(MgLog(b), LogN(b))>>
       \o CreateV(TmpIdx(b), v) \o Apps(TmpIdx(b), f.data) \o <<Fsync(TmpIdx(b))>>
       \o <<Ren(TmpIdx(b), IdxN(b))>> \o DirSync

RECURSIVE PlanMigrateFrom(_, _, _)
PlanMigrateFrom(d, bs, v) ==
  IF bs = <<>> THEN <<>>
  ELSE LET p == PlanMigrateSeg(d, Head(bs), v) IN p \o PlanMigrateFrom(ApplyAll(d, p), Tail(bs), v)
PlanMigrate(d, v) == PlanMigrateFrom(d, SegList(d), v)

AllIn(d, v) == \A b \in Bases(d) : d[LogN(b)].ver = v

\* the log is closed, migrated, and opened again (with Recover, like every open here)
MigrateTo(v) == /\ h.open /\ ~AllIn(dir, v)
                /\ dir' = RecoverDir(ApplyAll(dir, PlanMigrate(dir, v)))
                /\ UNCHANGED <<h, live, nxt>>

MNext == Next \/ \E v \in {1, 2} : MigrateTo(v)
MSpec == Init /\ [][MNext]_vars

\* a migration changes no message and leaves every segment in the target format
MigrateOK == \A v \in {1, 2} :
               LET r == RecoverDir(ApplyAll(dir, PlanMigrate(dir, v))) IN
               AllIn(r, v) /\ ViewsAgree(r) /\ Scan(r) = live /\ NextOf(r) = nxt

MigRecOK(r, v) ==
  /\ RecOK(r, {live}, nxt)
  /\ LET m == RecoverDir(ApplyAll(r, PlanMigrate(r, v))) IN           \* run again: completes
     AllIn(m, v) /\ ViewsAgree(m) /\ Scan(m) = live /\ NextOf(m) = nxt

CrashM1 == \A v \in {1, 2} :
  \A img \in Images(dir, PlanMigrate(dir, v)) :
     LET r == RecoverDir(img) IN
     \/ MigRecOK(r, v)
     \/ PrintT(<<"CRASH-VIOLATION (migrate)", v, img, r, Scan(r), NextOf(r)>>) /\ FALSE

CrashM2 == \A v \in {1, 2} :
  \A img \in Images(dir, PlanMigrate(dir, v)) :
    \A img2 \in Images(img, PlanOpenRecover(img)) :
     LET r == RecoverDir(img2) IN
     \/ MigRecOK(r, v)
     \/ PrintT(<<"CRASH2-VIOLATION (migrate)", v, img, img2, r, Scan(r), NextOf(r)>>) /\ FALSE
=============================================================================
