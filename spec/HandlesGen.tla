---- MODULE HandlesGen ----
EXTENDS Handles, Json
Emit == PrintT("CASE " \o ToJson([hist |-> hist]))
\* all histories of exactly MaxLen steps (no VIEW: the history is part of the state)
EmitFull == Len(hist) = MaxLen => PrintT("CASE " \o ToJson([hist |-> hist]))
====
