---- MODULE HandlesGen ----
EXTENDS Handles, Json
Emit == PrintT("CASE " \o ToJson([hist |-> hist]))
====
