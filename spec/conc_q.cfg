SPECIFICATION Spec
CONSTANTS
  MaxOff = 4
  RollAt = 2
  NDel = 2
  NCons = 1
  FixStale = TRUE
VIEW view
INVARIANTS QuiescentOK HeadFlagOK
CHECK_DEADLOCK FALSE
