SPECIFICATION Spec
POSTCONDITION Finished
CHECK_DEADLOCK FALSE
