SPECIFICATION BSpec
CONSTANTS
  HashOf <- mcHash
  KLenOf <- mcKLen
  KeySet <- mcKeys1
  TimeSet = {1, 2}
  VLens = {4}
  MaxOff = 3
  MaxBatch = 2
  MaxSets = 1
  Rollovers = {50, 1000}
  Versions = {2}
  KeyIndex = FALSE
  TimeIndex = TRUE
  OptKeep <- FF
  OptEager <- FF
  OptCheck <- FF
  OptRecover <- FF
  AllowRO = FALSE
  AllowRmIndex = TRUE
  AllowMigrate = FALSE
  MaxClk = 2
  SkipRule = "size+mtime"
  KeepMissingIndex = FALSE
  NeedPremise = FALSE
VIEW bview
INVARIANTS BackupExact BackupOpensSame MtSane Fidelity
CHECK_DEADLOCK FALSE
