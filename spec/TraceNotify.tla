----------------------------- MODULE TraceNotify -----------------------------
(* C18, step level: a replayed schedule of the real pkg/notify.Offset, one     *)
(* event per model action (the code segment between two pause points).  The    *)
(* event carries where the goroutine stopped next and what Wait returned.      *)
(* A rejection here means the code no longer follows Notify.tla step by step:  *)
(* it is reported as MODEL-DRIFT, the verdict comes from TraceNotifyFinal.     *)
EXTENDS MCNotify, Json, IOUtils

Trace == ndJsonDeserialize(IOEnv.TRACE)
VARIABLE l
e == Trace[l]
Step == l <= Len(Trace) /\ l' = l + 1
TInit == Init /\ l = 1

Config == Step /\ e.ev = "config" /\ UNCHANGED vars
Reset == /\ Step /\ e.ev = "reset"
         /\ next' = 0 /\ token' = 1 /\ closedCh' = {} /\ fresh' = 2
         /\ pc' = [p \in Procs |-> "start"] /\ hold' = [p \in Procs |-> 0]
         /\ upd' = [p \in Waiters |-> FALSE] /\ cancelled' = {}
         /\ ret' = [p \in Waiters |-> ""] /\ why' = [p \in Waiters |-> ""] /\ hist' = <<>>
Act(p, a) == \/ (a = "WFast" /\ WFast(p)) \/ (a = "WAcquire" /\ WAcquire(p)) \/ (a = "WProbe" /\ WProbe(p))
             \/ (a = "WRelease" /\ WRelease(p)) \/ (a = "WWake" /\ WWake(p)) \/ (a = "Cancel" /\ Cancel(p))
             \/ (a = "SAcquire" /\ SAcquire(p)) \/ (a = "SStore" /\ SStore(p)) \/ (a = "SBcast" /\ SBcast(p))
             \/ (a = "SRenew" /\ SRenew(p))
             \/ (a = "CAcquire" /\ CAcquire) \/ (a = "CBcast" /\ CBcast) \/ (a = "CCloseBar" /\ CCloseBar)
NStep == /\ Step /\ e.ev = "nstep"
         /\ Act(e.p, e.a)
         /\ (e.a = "Cancel" \/ pc'[e.p] = e.at)
         /\ (e.p \notin Waiters \/ ret'[e.p] = e.ret)
TNext == Config \/ Reset \/ NStep
TSpec == TInit /\ [][TNext]_<<vars, l>>
Accepted == /\ PrintT(<<"TRACE-DEPTH", TLCGet("stats").diameter - 1, Len(Trace)>>)
            /\ TLCGet("stats").diameter - 1 = Len(Trace)
=============================================================================
