SPECIFICATION Spec
CONSTANTS
  Waiters <- mcWaiters
  Setters <- mcSetters
  WOff <- mcWOff
  SVal <- mcSVal
  MaxChan = 5
  CanClose = TRUE
  Cancels <- mcCancels
  ProbeFirst = TRUE
VIEW view
INVARIANTS NoLostWakeup Caused TokenMutex
CHECK_DEADLOCK FALSE
