---- MODULE NotifyGen ----
EXTENDS MCNotify, Json
Emit == PrintT("CASE " \o ToJson([hist |-> hist]))
====
