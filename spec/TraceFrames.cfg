SPECIFICATION TSpec
CONSTANTS
  MaxRecs = 0
POSTCONDITION Accepted
CHECK_DEADLOCK FALSE
