---------------------------- MODULE TraceHandles ----------------------------
(* Trace validation for C19: recorded open/close/publish/query events of up to *)
(* three handles on one directory, judged against Handles.tla.                 *)
EXTENDS Handles, Json, IOUtils

Trace == ndJsonDeserialize(IOEnv.TRACE)
VARIABLE l
tvars == <<vars, l>>
e == Trace[l]
Step == l <= Len(Trace) /\ l' = l + 1

TInit == Init /\ l = 1
TConfig == Step /\ e.ev = "config" /\ UNCHANGED vars
TReset == /\ Step /\ e.ev = "reset"
          /\ hs' = [i \in H |-> "closed"] /\ exists' = FALSE /\ corrupt' = FALSE /\ npub' = 0 /\ UNCHANGED hist
TOpen == /\ Step /\ e.ev = "hopen" /\ e.id \in H /\ hs[e.id] = "closed"
         /\ (e.res = OpenResult(e.mode, e.create, e.check, e.recover)) = TRUE
         /\ hs' = IF e.res = "" THEN [hs EXCEPT ![e.id] = e.mode] ELSE hs
         /\ exists' = (exists \/ e.create)
         /\ corrupt' = (corrupt /\ ~Repairs(e.mode, e.create, e.check, e.recover))
         /\ UNCHANGED <<npub, hist>>
TClose == /\ Step /\ e.ev = "hclose" /\ e.id \in H /\ hs[e.id] # "closed" /\ e.err = ""
          /\ hs' = [hs EXCEPT ![e.id] = "closed"]
          /\ UNCHANGED <<exists, corrupt, npub, hist>>
\* Publish / Delete: accepted on the writer, ErrReadonly on a read-only handle
TPublish == /\ Step /\ e.ev = "hpublish" /\ e.id \in H /\ hs[e.id] # "closed"
            /\ (e.err = IF hs[e.id] = "rw" THEN "" ELSE "Readonly") = TRUE
            /\ npub' = IF hs[e.id] = "rw" THEN npub + 1 ELSE npub
            /\ UNCHANGED <<hs, exists, corrupt, hist>>
TDelete == /\ Step /\ e.ev = "hdelete" /\ e.id \in H /\ hs[e.id] # "closed"
           /\ (e.err = IF hs[e.id] = "rw" THEN "" ELSE "Readonly") = TRUE
           /\ UNCHANGED vars
\* equality observations: read-only answers = read-write answers on the same files; log files unchanged
TSame == Step /\ e.ev = "same" /\ (e.a = e.b) = TRUE /\ UNCHANGED vars
TDamage == /\ Step /\ e.ev = "damage" /\ AllClosed /\ corrupt' = TRUE /\ UNCHANGED <<hs, exists, npub, hist>>
TRepair == /\ Step /\ e.ev = "repair" /\ AllClosed /\ corrupt' = FALSE /\ UNCHANGED <<hs, exists, npub, hist>>

TNext == TConfig \/ TReset \/ TOpen \/ TClose \/ TPublish \/ TDelete \/ TSame \/ TDamage \/ TRepair
TSpec == TInit /\ [][TNext]_tvars
Accepted == /\ PrintT(<<"TRACE-DEPTH", TLCGet("stats").diameter - 1, Len(Trace)>>)
            /\ TLCGet("stats").diameter - 1 = Len(Trace)
=============================================================================
