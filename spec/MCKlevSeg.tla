---- MODULE MCKlevSeg ----
EXTENDS KlevSeg
\* model constants that cannot be written in a cfg file
mcKeys1 == {"n"}
mcKeys2 == {"n", "a"}
mcKeys3 == {"n", "a", "b"}
mcKeys4 == {"n", "a", "b", "g"}
mcHash == [k \in {"n", "a", "b", "g"} |-> CASE k = "n" -> 0 [] k = "a" -> 1 [] k = "b" -> 1 [] k = "g" -> 2]
mcKLen == [k \in {"n", "a", "b", "g"} |-> CASE k = "n" -> 0 [] k = "a" -> 20 [] k = "b" -> 20 [] k = "g" -> 1]
FF == {FALSE}
TF == {TRUE, FALSE}
====
