SPECIFICATION Spec
CONSTANTS
  HashOf <- mcHash
  KLenOf <- mcKLen
  KeySet <- mcKeys1
  TimeSet = {1, 2}
  VLens = {4}
  MaxOff = 5
  MaxBatch = 2
  MaxSets = 2
  Rollovers = {50, 1000}
  Versions = {1, 2}
  KeyIndex = FALSE
  TimeIndex = TRUE
  OptKeep <- FF
  OptEager <- FF
  OptCheck <- TF
  OptRecover <- TF
  AllowRO = TRUE
  AllowRmIndex = TRUE
  AllowMigrate = TRUE
VIEW view
INVARIANTS Fidelity NextOK NextDerivable Sorted FirstIsBase IndexDerived IndexLen IxRunInv ConsumeInv GetInv ScanInv GetByTimeInv StatInv
PROPERTIES NextMonotone ReadOnlyRules
CHECK_DEADLOCK FALSE
