SPECIFICATION Spec
CONSTANTS
  HashOf <- mcHash
  KLenOf <- mcKLen
  KeySet <- mcKeys1
  TimeSet = {1, 2}
  VLens = {4}
  MaxOff = 7
  MaxBatch = 2
  MaxSets = 2
  Rollovers = {50, 1000}
  Versions = {2}
  KeyIndex = FALSE
  TimeIndex = TRUE
  OptKeep <- FF
  OptEager <- FF
  OptCheck <- FF
  OptRecover <- FF
  AllowRO = FALSE
  AllowRmIndex = FALSE
  AllowMigrate = FALSE
VIEW view
INVARIANTS Fidelity FindOffsetInv FindCountInv FindSizeInv FindAgeInv
CHECK_DEADLOCK FALSE
