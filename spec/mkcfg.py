#!/usr/bin/env python3
"""Generates the TLC configuration files of the KlevSeg family (one source of truth for the constants)."""
import itertools

BASE = dict(KeySet="mcKeys1", TimeSet="{1}", VLens="{4}", MaxOff=5, MaxBatch=2, MaxSets=2, Rollovers="{50, 1000}",
            Versions="{2}", KeyIndex="FALSE", TimeIndex="FALSE", OptKeep="FF", OptEager="FF", OptCheck="FF",
            OptRecover="FF", AllowRO="FALSE", AllowRmIndex="FALSE", AllowMigrate="FALSE")
SUBST = {"KeySet", "OptKeep", "OptEager", "OptCheck", "OptRecover"}

def cfg(name, invs, props=(), spec="Spec", view="view", **kw):
    c = dict(BASE); c.update(kw)
    lines = [f"SPECIFICATION {spec}", "CONSTANTS", "  HashOf <- mcHash", "  KLenOf <- mcKLen"]
    for k, v in c.items():
        lines.append(f"  {k} {'<-' if k in SUBST else '='} {v}")
    lines.append(f"VIEW {view}")
    lines.append("INVARIANTS " + " ".join(invs))
    if props:
        lines.append("PROPERTIES " + " ".join(props))
    lines.append("CHECK_DEADLOCK FALSE")
    open(name + ".cfg", "w").write("\n".join(lines) + "\n")

STRUCT = ["Fidelity", "NextOK", "NextDerivable", "Sorted", "FirstIsBase", "IndexDerived", "IndexLen"]
CORE = STRUCT + ["ConsumeInv", "GetInv", "ScanInv", "DeleteInv"]

# core family: C01 C02 C03 C04 C12
cfg("seg_core_q", CORE, ["NextMonotone"], Versions="{1, 2}", OptKeep="TF", AllowRO="TRUE")
# thorough: one deep configuration for the structure (bigger logs, bigger delete sets) ...
cfg("seg_core_t", CORE, ["NextMonotone"], MaxOff=10, MaxSets=3, MaxBatch=3, Versions="{2}", AllowRO="TRUE", Rollovers="{5, 50, 100, 1000}")
# ... and one wide configuration for the options (every Open option combination, index removal, migration, versions)
cfg("seg_opts_t", CORE, ["NextMonotone"], MaxOff=5, MaxSets=2, Versions="{1, 2}", OptKeep="TF", OptEager="TF",
    OptCheck="TF", OptRecover="TF", AllowRO="TRUE", AllowRmIndex="TRUE", AllowMigrate="TRUE", Rollovers="{50, 1000}")
cfg("gen_core_q", ["Emit"], MaxOff=5)
cfg("gen_core_t", ["Emit"], MaxOff=6, MaxSets=3, Versions="{1, 2}", OptKeep="TF", AllowRmIndex="TRUE")
# index files: C11 (removal of index files, Check / Recover options, read-only handles, arbitrary time orders, both versions)
IDX = STRUCT + ["IxRunInv", "ConsumeInv", "GetInv", "ScanInv", "GetByTimeInv", "StatInv"]
cfg("seg_index_q", IDX, ["NextMonotone", "ReadOnlyRules"], TimeSet="{1, 2}", TimeIndex="TRUE", MaxOff=3, Versions="{1, 2}",
    OptCheck="TF", OptRecover="TF", AllowRO="TRUE", AllowRmIndex="TRUE")
cfg("seg_index_t", IDX, ["NextMonotone", "ReadOnlyRules"], TimeSet="{1, 2}", TimeIndex="TRUE", MaxOff=5, Versions="{1, 2}",
    OptCheck="TF", OptRecover="TF", AllowRO="TRUE", AllowRmIndex="TRUE", AllowMigrate="TRUE")
# versions: C17 (Migrate, EagerVersionMigrate, KeepRewriteVersion, NewSegmentsVersion changing at every reopen)
VER = STRUCT + ["IxRunInv", "ConsumeInv", "GetInv", "ScanInv", "StatInv"]
cfg("seg_versions_q", VER, ["NextMonotone", "VersionRules", "MigrateRules", "ReadOnlyRules"], MaxOff=5, Versions="{1, 2}", OptKeep="TF", OptEager="TF",
    AllowMigrate="TRUE", AllowRO="TRUE")
cfg("seg_versions_t", VER, ["NextMonotone", "VersionRules", "MigrateRules", "ReadOnlyRules"], MaxOff=6, Versions="{1, 2}", OptKeep="TF", OptEager="TF",
    AllowMigrate="TRUE", AllowRO="TRUE")
# keys: C09
cfg("seg_keys_q", STRUCT + ["GetByKeyInv", "ConsumeByKeyInv"], KeySet="mcKeys3", VLens="{0, 4}", MaxOff=4, KeyIndex="TRUE", Rollovers="{60, 1000}")
cfg("seg_keys_t", STRUCT + ["GetByKeyInv", "ConsumeByKeyInv"], KeySet="mcKeys3", VLens="{0, 4}", MaxOff=5, KeyIndex="TRUE", Rollovers="{60, 1000}", AllowRO="TRUE")
cfg("gen_keys_q", ["Emit"], KeySet="mcKeys3", MaxOff=3, KeyIndex="TRUE", Rollovers="{60, 1000}", MaxBatch=2)
cfg("gen_keys_t", ["Emit"], KeySet="mcKeys3", VLens="{0, 4}", MaxOff=4, KeyIndex="TRUE", Rollovers="{60, 1000}")
# times: C10
cfg("seg_times_q", STRUCT + ["GetByTimeInv"], TimeSet="{1, 2, 3}", TimeIndex="TRUE", AllowRmIndex="TRUE")
cfg("seg_times_t", STRUCT + ["GetByTimeInv"], TimeSet="{1, 2, 3}", TimeIndex="TRUE", AllowRmIndex="TRUE", MaxOff=6, OptRecover="TF", AllowRO="TRUE")
cfg("gen_times_q", ["Emit"], TimeSet="{1, 2}", TimeIndex="TRUE", MaxOff=4)
cfg("gen_times_t", ["Emit"], TimeSet="{1, 2, 3}", TimeIndex="TRUE", MaxOff=5, AllowRmIndex="TRUE")

# backup: C20 (KlevBackup.tla)
BK = dict(spec="BSpec", view="bview", MaxSets=1, TimeSet="{1, 2}", TimeIndex="TRUE", AllowRmIndex="TRUE", MaxClk=2,
          SkipRule='"size+mtime"', KeepMissingIndex="FALSE", NeedPremise="TRUE")
BKI = ["BackupExact", "BackupOpensSame", "MtSane", "Fidelity"]
cfg("backup_q", BKI, ["SourceUntouched"], MaxOff=3, **{**BK, "MaxClk": 1, "TimeSet": "{1}"})
cfg("backup_t", BKI, ["SourceUntouched"], MaxOff=3, **BK)          # 9.25M states, 7 min
cfg("backup_versions_t", BKI, ["SourceUntouched"], MaxOff=3, Versions="{1, 2}", **{**BK, "MaxClk": 1, "TimeSet": "{1}"})
# negative controls (each MUST be violated): skip on mtime alone with a coarse clock; no append-only premise; the
# behaviour before the fix of the missing-index case
cfg("backup_no_size", BKI, MaxOff=3, **{**BK, "SkipRule": '"mtime"'})
cfg("backup_no_premise", BKI, MaxOff=3, **{**BK, "NeedPremise": "FALSE"})
cfg("backup_no_ixremove", BKI, MaxOff=3, **{**BK, "KeepMissingIndex": "TRUE"})
