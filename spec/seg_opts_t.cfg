SPECIFICATION Spec
CONSTANTS
  HashOf <- mcHash
  KLenOf <- mcKLen
  KeySet <- mcKeys1
  TimeSet = {1}
  VLens = {4}
  MaxOff = 5
  MaxBatch = 2
  MaxSets = 2
  Rollovers = {50, 1000}
  Versions = {1, 2}
  KeyIndex = FALSE
  TimeIndex = FALSE
  OptKeep <- TF
  OptEager <- TF
  OptCheck <- TF
  OptRecover <- TF
  AllowRO = TRUE
  AllowRmIndex = TRUE
  AllowMigrate = TRUE
VIEW view
INVARIANTS Fidelity NextOK NextDerivable Sorted FirstIsBase IndexDerived IndexLen ConsumeInv GetInv ScanInv DeleteInv
PROPERTIES NextMonotone
CHECK_DEADLOCK FALSE
