SPECIFICATION Spec
CONSTANTS
  H = {1, 2, 3}
  MaxInode = 3
  RemoveOnFail = FALSE
INVARIANTS OneWriter WriterExclusive OneLockFile LocksConsistent Released
PROPERTIES RefusalJustified
CHECK_DEADLOCK FALSE
