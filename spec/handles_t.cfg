SPECIFICATION Spec
CONSTANTS
  H = {1, 2, 3}
  MaxLen = 8
VIEW view
INVARIANTS OneWriter WriterExclusive Released ReadOnlyNeverRepairs
CHECK_DEADLOCK FALSE
