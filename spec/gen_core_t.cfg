SPECIFICATION Spec
CONSTANTS
  HashOf <- mcHash
  KLenOf <- mcKLen
  KeySet <- mcKeys1
  TimeSet = {1}
  VLens = {4}
  MaxOff = 6
  MaxBatch = 2
  MaxSets = 3
  Rollovers = {50, 1000}
  Versions = {1, 2}
  KeyIndex = FALSE
  TimeIndex = FALSE
  OptKeep <- TF
  OptEager <- FF
  OptCheck <- FF
  OptRecover <- FF
  AllowRO = FALSE
  AllowRmIndex = TRUE
  AllowMigrate = FALSE
VIEW view
INVARIANTS Emit
CHECK_DEADLOCK FALSE
