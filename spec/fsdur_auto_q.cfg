SPECIFICATION DSpec
CONSTANTS
  MaxOff = 4
  RollAt = 2
  AutoSync = TRUE
  MaxDel = 2
  FixRecoverStale = TRUE
  FixShortHdr = TRUE
  FixTailOrder = TRUE
  FreshTmp = TRUE
  KnownRebase = TRUE
INVARIANTS NoCrashOK DurSane AtRest PowerLoss1
CHECK_DEADLOCK FALSE
