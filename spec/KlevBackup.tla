----------------------------- MODULE KlevBackup -----------------------------
(* C20, design level: Backup as the per-file copy loop of segment.Backup /      *)
(* utils.copyFile over KlevSeg's directory, with the state the skip rule looks  *)
(* at: file sizes (KlevSeg's real byte sizes) and modification times.           *)
(*                                                                              *)
(* clk   = a logical clock; it MAY stand still between two writes (coarse       *)
(*         timestamps): every result holds for any clock granularity.           *)
(* mt    = modification time of every source file (log and index per segment).  *)
(* bk    = the target directory: base -> [seg, l, i] (content and the mtimes    *)
(*         copyFile set with Chtimes).                                          *)
(* ok    = the premise of C20: the target was empty at the first backup and the *)
(*         source files have only been appended to since (state-based: every    *)
(*         file that existed is a byte prefix of what it is now, index files    *)
(*         may have been removed).                                              *)
(* fresh = a backup has just completed.                                         *)
(*                                                                              *)
(* BackupExact: under the premise the target directory IS the source directory  *)
(* (same segments, same log bytes, an index exactly where the source has one    *)
(* and equal to it; for arbitrary time orders: a valid running-maximum index of *)
(* the same length), so that it opens to the same log (KlevSeg's Open and       *)
(* queries are functions of the directory).                                     *)
(* SkipRule is the rule under which copyFile leaves an existing target file     *)
(* alone: "size+mtime" is the code; "mtime" alone is refuted by a clock that    *)
(* stands still (backup_no_size.cfg); without the premise a Delete between two  *)
(* backups leaves stale segments (backup_no_premise.cfg).                       *)
EXTENDS MCKlevSeg

CONSTANTS MaxClk, SkipRule, KeepMissingIndex, NeedPremise
VARIABLES clk, mt, bk, ok, fresh

bvars == <<clk, mt, bk, ok, fresh>>
allvars == <<vars, bvars>>
bview == <<view, bvars>>

Bases(d) == {d[i].base : i \in 1..Len(d)}
SegB(d, b) == d[CHOOSE i \in 1..Len(d) : d[i].base = b]
LogBytes(s) == <<s.ver, s.recs>>              \* the content of a log file
IsPre(a, b) == Len(a) <= Len(b) /\ SubSeq(b, 1, Len(a)) = a

\* ---- "the source has only been appended to" (one step)
LogAppended(a, b) == LogSize(a) = 0 \/ (a.ver = b.ver /\ IsPre(a.recs, b.recs))
IxAppended(a, b) == \/ ~a.ix.present \/ ~b.ix.present \/ IdxSize(a) = 0
                    \/ (a.ix.ver = b.ix.ver /\ IsPre(a.ix.ts, b.ix.ts))
AppendOnly(d1, d2) == \A b \in Bases(d1) : /\ b \in Bases(d2)
                                           /\ LogAppended(SegB(d1, b), SegB(d2, b))
                                           /\ IxAppended(SegB(d1, b), SegB(d2, b))

\* ---- source steps: KlevSeg's Next, stamping every file that was written
Stamp ==
  /\ clk' \in (IF clk < MaxClk THEN {clk, clk + 1} ELSE {clk})
  /\ mt' = [b \in Bases(disk') |->
             LET s2 == SegB(disk', b) IN
             IF b \in Bases(disk)
             THEN LET s1 == SegB(disk, b) IN
                  [l |-> IF LogBytes(s1) = LogBytes(s2) THEN mt[b].l ELSE clk',
                   i |-> IF s1.ix = s2.ix THEN mt[b].i ELSE clk']
             ELSE [l |-> clk', i |-> clk']]
SrcStep == /\ Next /\ Stamp
           /\ bk' = bk /\ fresh' = FALSE
           /\ ok' = IF DOMAIN bk = {} THEN TRUE ELSE ok /\ AppendOnly(disk, disk')

\* ---- copyFile(src, dst): skip when the target exists with the same size and mtime
SkipLog(e, s, m) == CASE SkipRule = "size+mtime" -> LogSize(e.seg) = LogSize(s) /\ e.l = m
                      [] SkipRule = "mtime" -> e.l = m
                      [] SkipRule = "never" -> FALSE
SkipIx(e, s, m) == CASE SkipRule = "size+mtime" -> IdxSize(e.seg) = IdxSize(s) /\ e.i = m
                     [] SkipRule = "mtime" -> e.i = m
                     [] SkipRule = "never" -> FALSE
BackupSeg(s) ==
  LET b == s.base
      has == b \in DOMAIN bk
      e == IF has THEN bk[b] ELSE [seg |-> s, l |-> -1, i |-> -1]
      keepLog == has /\ SkipLog(e, s, mt[b].l)
      logPart == IF keepLog THEN [ver |-> e.seg.ver, recs |-> e.seg.recs, l |-> e.l]
                 ELSE [ver |-> s.ver, recs |-> s.recs, l |-> mt[b].l]
      keepIx == has /\ e.seg.ix.present /\ s.ix.present /\ SkipIx(e, s, mt[b].i)
      ixPart == IF ~s.ix.present
                THEN IF KeepMissingIndex /\ has THEN [ix |-> e.seg.ix, i |-> e.i]   \* the behaviour before the fix
                     ELSE [ix |-> NoIx, i |-> -1]                                     \* target index removed
                ELSE IF keepIx THEN [ix |-> e.seg.ix, i |-> e.i]
                ELSE [ix |-> s.ix, i |-> mt[b].i]
  IN [seg |-> Seg(b, logPart.ver, logPart.recs, ixPart.ix), l |-> logPart.l, i |-> ixPart.i]

\* Log.Backup (any open handle) and the package-level Backup (closed directory): every segment of the directory
Backup ==
  /\ bk' = [b \in DOMAIN bk \cup Bases(disk) |-> IF b \in Bases(disk) THEN BackupSeg(SegB(disk, b)) ELSE bk[b]]
  /\ fresh' = TRUE
  /\ UNCHANGED <<vars, clk, mt, ok>>

NoFiles == [b \in {} |-> 0]
BInit == Init /\ clk = 0 /\ mt = NoFiles /\ bk = NoFiles /\ ok = TRUE /\ fresh = FALSE
BNext == SrcStep \/ Backup
BSpec == BInit /\ [][BNext]_allvars

-----------------------------------------------------------------------------
MonoPub == NonDecreasingTimes(pub)
IxValid(t, s) == /\ t.ix.present = s.ix.present
                 /\ s.ix.present =>
                      \/ t.ix = s.ix
                      \/ /\ ~MonoPub /\ t.ix.ver = s.ix.ver /\ Len(t.ix.ts) = Len(s.ix.ts)
                         /\ \E prev \in {0} \cup TimeSet : t.ix.ts = DeriveTs(s.recs, prev)
BackupExact ==
  (fresh /\ (ok \/ ~NeedPremise)) =>
     /\ DOMAIN bk = Bases(disk)
     /\ \A b \in Bases(disk) : /\ LogBytes(bk[b].seg) = LogBytes(SegB(disk, b))
                               /\ IxValid(bk[b].seg, SegB(disk, b))
\* the target as a directory, and what it opens to: the source's live sequence and next offset
BkDisk == LET bs == SetToSortSeq(DOMAIN bk, <) IN [i \in 1..Len(bs) |-> bk[bs[i]].seg]
BkFlat == FoldLeft(LAMBDA acc, s : acc \o s.recs, <<>>, BkDisk)
BackupOpensSame ==
  (fresh /\ ok) => /\ BkFlat = Live
                   /\ (disk # <<>> => HeadNext(BkDisk[Len(BkDisk)]) = ANext)
\* a backup never changes the source (Backup leaves vars unchanged by construction; stated for the record)
SourceUntouched == [][fresh' /\ ~fresh => UNCHANGED vars]_allvars
\* mtimes never run ahead of the clock, every source file has one
MtSane == /\ DOMAIN mt = Bases(disk)
          /\ \A b \in DOMAIN mt : mt[b].l <= clk /\ mt[b].i <= clk
=============================================================================
