SPECIFICATION DSpec
CONSTANTS
  MaxOff = 5
  RollAt = 2
  AutoSync = FALSE
  MaxDel = 3
  FixRecoverStale = TRUE
  FixShortHdr = TRUE
  FixTailOrder = TRUE
  FreshTmp = TRUE
  KnownRebase = TRUE
  RecoverFsync = TRUE
INVARIANTS NoCrashOK DurSane AtRest PowerLoss1 PowerLoss2
CHECK_DEADLOCK FALSE
