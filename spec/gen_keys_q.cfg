SPECIFICATION Spec
CONSTANTS
  HashOf <- mcHash
  KLenOf <- mcKLen
  KeySet <- mcKeys3
  TimeSet = {1}
  VLens = {4}
  MaxOff = 3
  MaxBatch = 2
  MaxSets = 2
  Rollovers = {60, 1000}
  Versions = {2}
  KeyIndex = TRUE
  TimeIndex = FALSE
  OptKeep <- FF
  OptEager <- FF
  OptCheck <- FF
  OptRecover <- FF
  AllowRO = FALSE
  AllowRmIndex = FALSE
  AllowMigrate = FALSE
VIEW view
INVARIANTS Emit
CHECK_DEADLOCK FALSE
