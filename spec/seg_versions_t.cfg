SPECIFICATION Spec
CONSTANTS
  HashOf <- mcHash
  KLenOf <- mcKLen
  KeySet <- mcKeys1
  TimeSet = {1}
  VLens = {4}
  MaxOff = 6
  MaxBatch = 2
  MaxSets = 2
  Rollovers = {50, 1000}
  Versions = {1, 2}
  KeyIndex = FALSE
  TimeIndex = FALSE
  OptKeep <- TF
  OptEager <- TF
  OptCheck <- FF
  OptRecover <- FF
  AllowRO = TRUE
  AllowRmIndex = FALSE
  AllowMigrate = TRUE
VIEW view
INVARIANTS Fidelity NextOK NextDerivable Sorted FirstIsBase IndexDerived IndexLen IxRunInv ConsumeInv GetInv ScanInv StatInv
PROPERTIES NextMonotone VersionRules MigrateRules ReadOnlyRules
CHECK_DEADLOCK FALSE
