SPECIFICATION SpecK
CONSTANTS
  MaxOff = 4
  RollAt = 2
  NDel = 2
  NCons = 0
  NGet = 0
  MaxDel = 2
  FixStale = TRUE
  NLook = 0
  NextFirst = TRUE
  EmptyHeadGuard = TRUE
  GuardBroad = FALSE
  NSync = 1
  SyncHoldsLock = TRUE
VIEW kview
INVARIANTS HeadFlagOK
CHECK_DEADLOCK FALSE
