---- MODULE Gen ----
(* Spec -> code: TLC (BFS, one worker, VIEW without hist) prints one JSON line per distinct reachable *)
(* state of KlevSeg carrying the shortest history that reaches it; the Go driver replays each history  *)
(* on the real klevdb and the recorded trace goes back to TLC (TraceAbs).                              *)
EXTENDS MCKlevSeg, Json
Emit == PrintT("CASE " \o ToJson([hist |-> hist, next |-> ANext, nlive |-> Len(Live),
                                    bases |-> [i \in 1..Len(disk) |-> disk[i].base]]))
====
