SPECIFICATION Spec
CONSTANTS
  Consumers = {"c1", "c2", "c3"}
  NCalls = 2
  NGC = 3
  IncLate = FALSE
  NoCountRecheck = FALSE
  NoRecheck = FALSE
INVARIANTS NoUseAfterClose InuseExact CurrentOpen NoLeak MutexSane
PROPERTIES Terminates
