----------------------------- MODULE TraceSearch -----------------------------
(* Binding of Search.tla: every (array, probe) case of the small domain is run  *)
(* through the REAL exported functions index.Consume / index.Get / index.Time / *)
(* segment.Consume / segment.Get and the recorded result must equal the         *)
(* declarative meaning.  Together with Search.tla's AllEqual (transcription =   *)
(* meaning) this is an exhaustive small-scope equivalence of code, literal      *)
(* transcription and specification.                                             *)
EXTENDS Search, Json, IOUtils

Trace == ndJsonDeserialize(IOEnv.TRACE)
VARIABLE l
e == Trace[l]
Step == l <= Len(Trace) /\ l' = l + 1
Expected == CASE e.fn = "index.Consume" -> IxConsumeSpec(e.a, e.p)
              [] e.fn = "index.Get" -> IxGetSpec(e.a, e.p)
              [] e.fn = "index.Time" -> IxTimeSpec(e.a, e.p)
              [] e.fn = "segment.Consume" -> SegConsumeSpec(e.a, e.p)
              [] e.fn = "segment.Get" -> SegGetSpec(e.a, e.p)
Case == Step /\ e.ev = "search" /\ (e.r = Expected) = TRUE
Other == Step /\ e.ev \in {"config", "reset"}
TNext == (Case \/ Other) /\ UNCHANGED x
TSpec == l = 1 /\ x = 0 /\ [][TNext]_<<l, x>>
Accepted == /\ PrintT(<<"TRACE-DEPTH", TLCGet("stats").diameter - 1, Len(Trace)>>)
            /\ TLCGet("stats").diameter - 1 = Len(Trace)
=============================================================================
