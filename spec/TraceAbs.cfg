SPECIFICATION Spec
INVARIANT KFReport
POSTCONDITION Accepted
CHECK_DEADLOCK FALSE
