SPECIFICATION Spec
CONSTANTS
  MaxOff = 4
  RollAt = 2
  AutoSync = FALSE
  MaxDel = 2
  FixRecoverStale = TRUE
  FixShortHdr = TRUE
  FixTailOrder = FALSE
  FreshTmp = TRUE
  KnownRebase = TRUE
INVARIANTS NoCrashOK Crash1 Crash2
CHECK_DEADLOCK FALSE
