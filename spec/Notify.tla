------------------------------ MODULE Notify ------------------------------
(* C18: pkg/notify.Offset step by step - the barrier channel as a token, the     *)
(* broadcast channel it carries, the atomic next offset.  One action per code  *)
(* segment between two pause points (vhook.At("notify.*")), so that a TLC      *)
(* behaviour is a schedule the real goroutines can be stepped through.         *)
EXTENDS Integers, FiniteSets, Sequences, TLC

\* (the @type comments are Apalache's annotations, used by NotifyInd.tla; TLC ignores them)
CONSTANTS
  \* @type: Set(Str);
  Waiters,
  \* @type: Set(Str);
  Setters,
  \* @type: Str -> Int;
  WOff,
  \* @type: Str -> Int;
  SVal,
  \* @type: Int;
  MaxChan,
  \* @type: Bool;
  CanClose,
  \* @type: Set(Str);
  Cancels,
  \* @type: Bool;
  ProbeFirst      \* negative control: the waiter probes BEFORE taking the token (seeded change S39)

VARIABLES
  \* @type: Int;
  next,      \* atomic nextOffset
  \* @type: Int;
  token,     \* barrier channel content: 0 = empty (someone holds it), c>0 = holds channel id c ; -1 = closed
  \* @type: Set(Int);
  closedCh,  \* set of broadcast channel ids that are closed
  \* @type: Int;
  fresh,     \* next fresh channel id
  \* @type: Str -> Str;
  pc,        \* per process program counter
  \* @type: Str -> Int;
  hold,      \* per process: channel id obtained from the barrier
  \* @type: Str -> Bool;
  upd,       \* per waiter: result of the probe
  \* @type: Set(Str);
  cancelled, \* set of waiters whose ctx is done
  \* @type: Str -> Str;
  ret,       \* per waiter: "" | "ok" | "closed" | "ctx"
  \* @type: Str -> Str;
  why,       \* ghost: per waiter reason for an ok return
  \* @type: Seq({p: Str, a: Str});
  hist       \* history variable: the schedule so far (hidden by VIEW), for replay on the real code
vars == <<next, token, closedCh, fresh, pc, hold, upd, cancelled, ret, why, hist>>
view == <<next, token, closedCh, fresh, pc, hold, upd, cancelled, ret, why>>
Log(p, a) == hist' = Append(hist, [p |-> p, a |-> a])

Procs == Waiters \cup Setters \cup (IF CanClose THEN {"closer"} ELSE {})

Init == /\ next = 0
        /\ token = 1 /\ closedCh = {} /\ fresh = 2
        /\ pc = [p \in Procs |-> "start"]
        /\ hold = [p \in Procs |-> 0]
        /\ upd = [p \in Waiters |-> FALSE]
        /\ cancelled = {}
        /\ ret = [p \in Waiters |-> ""]
        /\ why = [p \in Waiters |-> ""]
        /\ hist = <<>>

\* ---- Wait(ctx, off)
WFast(w) == /\ Log(w, "WFast")
            /\ pc[w] = "start"
            /\ IF next > WOff[w]
               THEN /\ pc' = [pc EXCEPT ![w] = "done"] /\ ret' = [ret EXCEPT ![w] = "ok"]
                    /\ why' = [why EXCEPT ![w] = "fast"]
               ELSE /\ pc' = [pc EXCEPT ![w] = "acquire"] /\ UNCHANGED <<ret, why>>
            /\ UNCHANGED <<next, token, closedCh, fresh, hold, upd, cancelled>>
\* negative control only: the re-check of the slow path runs before the token is taken
WProbeEarly(w) == /\ Log(w, "WProbeEarly")
                  /\ ProbeFirst /\ pc[w] = "acquire"
                  /\ upd' = [upd EXCEPT ![w] = next > WOff[w]]
                  /\ pc' = [pc EXCEPT ![w] = "acquire2"]
                  /\ UNCHANGED <<next, token, closedCh, fresh, hold, cancelled, ret, why>>

WAcquire(w) == /\ Log(w, "WAcquire")
               /\ pc[w] = (IF ProbeFirst THEN "acquire2" ELSE "acquire")
               /\ \/ /\ token > 0
                     /\ hold' = [hold EXCEPT ![w] = token] /\ token' = 0
                     /\ pc' = [pc EXCEPT ![w] = IF ProbeFirst THEN "release" ELSE "probe"] /\ UNCHANGED <<ret, why>>
                  \/ /\ token = -1
                     /\ pc' = [pc EXCEPT ![w] = "done"] /\ ret' = [ret EXCEPT ![w] = "closed"]
                     /\ UNCHANGED <<hold, token, why>>
               /\ UNCHANGED <<next, closedCh, fresh, upd, cancelled>>

WProbe(w) == /\ Log(w, "WProbe")
             /\ pc[w] = "probe"
             /\ upd' = [upd EXCEPT ![w] = next > WOff[w]]
             /\ pc' = [pc EXCEPT ![w] = "release"]
             /\ UNCHANGED <<next, token, closedCh, fresh, hold, cancelled, ret, why>>

WRelease(w) == /\ Log(w, "WRelease")
               /\ pc[w] = "release"
               /\ token = 0            \* buffered chan cap 1, we hold the token so it is empty
               /\ token' = hold[w]
               /\ pc' = [pc EXCEPT ![w] = "park"]      \* pause point "notify.wait.released"
               /\ UNCHANGED <<next, closedCh, fresh, hold, upd, cancelled, ret, why>>

\* after the release: return at once if the probe saw the offset passed, else select on broadcast / ctx
WWake(w) == /\ Log(w, "WWake")
            /\ pc[w] = "park"
            /\ \/ /\ upd[w]
                  /\ ret' = [ret EXCEPT ![w] = "ok"] /\ why' = [why EXCEPT ![w] = "probe"]
               \/ /\ ~upd[w] /\ hold[w] \in closedCh
                  /\ ret' = [ret EXCEPT ![w] = "ok"] /\ why' = [why EXCEPT ![w] = "bcast"]
               \/ /\ ~upd[w] /\ w \in cancelled
                  /\ ret' = [ret EXCEPT ![w] = "ctx"] /\ UNCHANGED why
            /\ pc' = [pc EXCEPT ![w] = "done"]
            /\ UNCHANGED <<next, token, closedCh, fresh, hold, upd, cancelled>>

Cancel(w) == /\ Log(w, "Cancel")
             /\ w \in Cancels /\ w \notin cancelled /\ pc[w] # "done"
             /\ cancelled' = cancelled \cup {w}
             /\ UNCHANGED <<next, token, closedCh, fresh, pc, hold, upd, ret, why>>

\* ---- Set(v)
SAcquire(s) == /\ Log(s, "SAcquire")
               /\ pc[s] = "start"
               /\ \/ /\ token > 0 /\ hold' = [hold EXCEPT ![s] = token] /\ token' = 0
                     /\ pc' = [pc EXCEPT ![s] = "store"]
                  \/ /\ token = -1 /\ pc' = [pc EXCEPT ![s] = "done"] /\ UNCHANGED <<hold, token>>
               /\ UNCHANGED <<next, closedCh, fresh, upd, cancelled, ret, why>>
SStore(s) == /\ Log(s, "SStore")
             /\ pc[s] = "store"
             /\ next' = IF next < SVal[s] THEN SVal[s] ELSE next
             /\ pc' = [pc EXCEPT ![s] = "bcast"]
             /\ UNCHANGED <<token, closedCh, fresh, hold, upd, cancelled, ret, why>>
SBcast(s) == /\ Log(s, "SBcast")
             /\ pc[s] = "bcast"
             /\ closedCh' = closedCh \cup {hold[s]}
             /\ pc' = [pc EXCEPT ![s] = "renew"]
             /\ UNCHANGED <<next, token, fresh, hold, upd, cancelled, ret, why>>
SRenew(s) == /\ Log(s, "SRenew")
             /\ pc[s] = "renew"
             /\ token = 0 /\ token' = fresh /\ fresh' = fresh + 1
             /\ pc' = [pc EXCEPT ![s] = "done"]
             /\ UNCHANGED <<next, closedCh, hold, upd, cancelled, ret, why>>

\* ---- Close
CAcquire == /\ Log("closer", "CAcquire")
            /\ CanClose /\ pc["closer"] = "start" /\ token > 0
            /\ hold' = [hold EXCEPT !["closer"] = token] /\ token' = 0
            /\ pc' = [pc EXCEPT !["closer"] = "bcast"]
            /\ UNCHANGED <<next, closedCh, fresh, upd, cancelled, ret, why>>
CBcast == /\ Log("closer", "CBcast")
          /\ CanClose /\ pc["closer"] = "bcast"
          /\ closedCh' = closedCh \cup {hold["closer"]}
          /\ pc' = [pc EXCEPT !["closer"] = "closebar"]
          /\ UNCHANGED <<next, token, fresh, hold, upd, cancelled, ret, why>>
CCloseBar == /\ Log("closer", "CCloseBar")
             /\ CanClose /\ pc["closer"] = "closebar"
             /\ token' = -1 /\ pc' = [pc EXCEPT !["closer"] = "done"]
             /\ UNCHANGED <<next, closedCh, fresh, hold, upd, cancelled, ret, why>>

Next == \/ \E w \in Waiters : WFast(w) \/ WProbeEarly(w) \/ WAcquire(w) \/ WProbe(w) \/ WRelease(w) \/ WWake(w) \/ Cancel(w)
        \/ \E s \in Setters : SAcquire(s) \/ SStore(s) \/ SBcast(s) \/ SRenew(s)
        \/ CAcquire \/ CBcast \/ CCloseBar

Fair == /\ \A w \in Waiters : WF_vars(WFast(w) \/ WProbeEarly(w) \/ WAcquire(w) \/ WProbe(w) \/ WRelease(w) \/ WWake(w))
        /\ \A s \in Setters : WF_vars(SAcquire(s) \/ SStore(s) \/ SBcast(s) \/ SRenew(s))
        /\ WF_vars(CAcquire \/ CBcast \/ CCloseBar)
Spec == Init /\ [][Next]_vars /\ Fair

\* no lost wakeup (safety form): a parked waiter whose offset has been passed is parked on a closed channel
NoLostWakeup == \A w \in Waiters : (pc[w] = "park" /\ ~upd[w] /\ next > WOff[w]) =>
                   \/ hold[w] \in closedCh
                   \/ \E s \in Setters : pc[s] = "bcast" /\ hold[s] = hold[w]
\* never for nothing: ok returns have a cause
Caused == \A w \in Waiters : ret[w] = "ok" =>
            \/ why[w] \in {"fast", "probe"} /\ next > WOff[w]
            \/ why[w] = "bcast" /\ hold[w] \in closedCh
\* the token is never duplicated: at most one holder
TokenMutex == Cardinality({p \in Procs : pc[p] \in {"probe", "release", "store", "bcast", "renew", "closebar"}}) <= 1
\* liveness: every waiter returns if its offset is passed, it is cancelled or the notifier is closed
Live == \A w \in Waiters : []((next > WOff[w] \/ w \in cancelled \/ token = -1) => <>(pc[w] = "done"))
=============================================================================
