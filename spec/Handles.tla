------------------------------ MODULE Handles ------------------------------
(* C19: the open/close protocol of a log directory: one writer at a time,     *)
(* read-only handles only next to read-only handles, the lock is released by  *)
(* Close and by a failed Open.  Implementation-shaped: an Open performs, in   *)
(* the order of klevdb.Open, MkdirAll (CreateDirs) -> flock (TryLock /        *)
(* TryRLock on <dir>/.lock) -> segment scan -> Check of the head -> handle.   *)
EXTENDS Integers, Sequences, FiniteSets, TLC

CONSTANTS H,        \* handle ids
          MaxLen    \* bound on the history length

VARIABLES hs,       \* handle -> "closed" | "rw" | "ro"
          exists,   \* the directory exists
          corrupt,  \* the head segment's index file is damaged (Check fails)
          npub,     \* messages published so far (only to make states with data)
          hist
vars == <<hs, exists, corrupt, npub, hist>>
view == <<hs, exists, corrupt, npub, Len(hist), IF hist = <<>> THEN <<>> ELSE <<hist[Len(hist)]>> >>

Init == hs = [i \in H |-> "closed"] /\ exists = FALSE /\ corrupt = FALSE /\ npub = 0 /\ hist = <<>>

Writers == {i \in H : hs[i] = "rw"}
Readers == {i \in H : hs[i] = "ro"}
AllClosed == \A i \in H : hs[i] = "closed"

\* the result klevdb.Open must give: "" or the reason of the failure
\* (Options.Recover: a read-write Open REPAIRS the head (Recover takes precedence over Check); a read-only Open
\* must not write, so Recover means Check there - seeded change S133 made it repair under the shared lock)
OpenResult(mode, create, check, recover) ==
  IF ~exists /\ ~create THEN "NoDir"
  ELSE IF mode = "rw" /\ (Writers # {} \/ Readers # {}) THEN "Locked"
  ELSE IF mode = "ro" /\ Writers # {} THEN "Locked"
  ELSE IF corrupt /\ mode = "ro" /\ (check \/ recover) THEN "Check"
  ELSE IF corrupt /\ mode = "rw" /\ check /\ ~recover THEN "Check"
  ELSE ""
Repairs(mode, create, check, recover) == OpenResult(mode, create, check, recover) = "" /\ mode = "rw" /\ recover

Open(i, mode, create, check, recover) ==
  /\ hs[i] = "closed" /\ Len(hist) < MaxLen
  /\ LET r == OpenResult(mode, create, check, recover) IN
     /\ hs' = IF r = "" THEN [hs EXCEPT ![i] = mode] ELSE hs      \* a failed Open holds nothing
     /\ exists' = (exists \/ create)                               \* MkdirAll happens before anything else
     /\ hist' = Append(hist, [op |-> "open", id |-> i, mode |-> mode, create |-> create, check |-> check,
                              recover |-> recover, res |-> r])
     /\ corrupt' = (corrupt /\ ~Repairs(mode, create, check, recover))
  /\ UNCHANGED npub

Close(i) == /\ hs[i] # "closed" /\ Len(hist) < MaxLen
            /\ hs' = [hs EXCEPT ![i] = "closed"]
            /\ hist' = Append(hist, [op |-> "close", id |-> i])
            /\ UNCHANGED <<exists, corrupt, npub>>

\* (appending to a log whose head index is damaged is outside C19: a rollover would also hide the damage from Check)
Publish(i) == /\ hs[i] = "rw" /\ ~corrupt /\ npub < 2 /\ Len(hist) < MaxLen
              /\ npub' = npub + 1
              /\ hist' = Append(hist, [op |-> "publish", id |-> i])
              /\ UNCHANGED <<hs, exists, corrupt>>

\* the environment damages / restores the head's index file while nobody has the log open
Damage == /\ AllClosed /\ exists /\ npub > 0 /\ ~corrupt /\ Len(hist) < MaxLen
          /\ corrupt' = TRUE /\ hist' = Append(hist, [op |-> "damage"])
          /\ UNCHANGED <<hs, exists, npub>>
Repair == /\ AllClosed /\ corrupt /\ Len(hist) < MaxLen
          /\ corrupt' = FALSE /\ hist' = Append(hist, [op |-> "repair"])
          /\ UNCHANGED <<hs, exists, npub>>

Next == \/ \E i \in H, mode \in {"rw", "ro"}, create \in BOOLEAN, check \in BOOLEAN, recover \in BOOLEAN :
             Open(i, mode, create, check, recover)
        \/ \E i \in H : Close(i) \/ Publish(i)
        \/ Damage \/ Repair
Spec == Init /\ [][Next]_vars

\* ---- C19
OneWriter == Cardinality(Writers) <= 1
WriterExclusive == Writers # {} => Readers = {}
\* the lock is released by Close and by a failed Open: whenever everything is closed, an open can succeed
Released == (AllClosed /\ exists /\ ~corrupt) => OpenResult("rw", FALSE, TRUE, FALSE) = ""
\* a read-only Open never repairs, whatever its options
ReadOnlyNeverRepairs == \A create \in BOOLEAN, check \in BOOLEAN, recover \in BOOLEAN : ~Repairs("ro", create, check, recover)
=============================================================================
