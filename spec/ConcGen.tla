---- MODULE ConcGen ----
EXTENDS KlevConc, Json
Emit == PrintT("CASE " \o ToJson([hist |-> hist]))
====
