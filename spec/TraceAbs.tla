------------------------------ MODULE TraceAbs ------------------------------
(* Trace specification: validates ndjson traces recorded from the real klevdb  *)
(* (sequential API histories) against the property-level predicates of KlevAbs.*)
(* One TLC state per trace line; a trace is accepted iff every line is         *)
(* consumed (POSTCONDITION Accepted). Many histories are concatenated; a       *)
(* "reset" line starts a new history on an empty directory.                    *)
(*                                                                             *)
(* Every action is  Step /\ e.ev = <kind> /\ <predicate over logged fields>.   *)
(* Predicates are used as VALUES ( (P) = TRUE ): inside an action TLC treats   *)
(* every \/ and => as an action-level disjunction and would enumerate 2^n      *)
(* identical successors.                                                       *)
(*                                                                             *)
(* e.j = TRUE  : the event is judged (the running check owns its property)     *)
(* e.j = FALSE : a state-changing event is only applied (reported effect)      *)
EXTENDS KlevAbs, TLC, Json, IOUtils

Trace == ndJsonDeserialize(IOEnv.TRACE)

VARIABLES l,      \* next trace line
          live,   \* abstract live sequence
          next,   \* abstract next offset
          cfg,    \* [keys, times, mono] index configuration of the history; mono = times never decrease
          h,      \* handle: [mode, newver, keep]  mode \in {"closed","rw","ro"}
          lay,    \* last projected layout: sequence of [base, ver, offs]
          pend,   \* result of the last Find* call (set of offsets), for the following Trim
          kf      \* known findings hit so far (set of ids)
vars == <<l, live, next, cfg, h, lay, pend, kf>>

e == Trace[l]
Step == l <= Len(Trace) /\ l' = l + 1
OpenKF == IF Len(Trace) > 0 /\ Trace[1].ev = "config" THEN Range(Trace[1].kf) ELSE {}

Par == [times |-> cfg.times, keys |-> cfg.keys]
Est(m) == RecSize(m, h.newver) + ItemSize(Par)
SetOf(s) == Range(s)
One(r) == IF r.msgs = <<>> THEN [err |-> r.err] ELSE [err |-> r.err, msg |-> r.msgs[1]]
Stamp(batch, assigned) == [i \in 1..Len(batch) |-> [batch[i] EXCEPT !.off = assigned[i]]]
AllOffs == UNION {SetOf(lay[i].offs) : i \in 1..Len(lay)}
VerOf(o) == IF \E i \in 1..Len(lay) : o \in SetOf(lay[i].offs)
            THEN lay[CHOOSE i \in 1..Len(lay) : o \in SetOf(lay[i].offs)].ver
            ELSE 0

\* verdict: ok, or an enabled known finding whose narrow signature matches
Verdict(ok, id, sig) == IF ok THEN UNCHANGED kf
                        ELSE sig /\ id \in OpenKF /\ kf' = kf \cup {id}
Must(ok) == ok = TRUE /\ UNCHANGED kf

KeepState == UNCHANGED <<live, next, cfg, h, lay, pend>>

Init == /\ l = 1 /\ live = <<>> /\ next = 0
        /\ cfg = [keys |-> FALSE, times |-> FALSE, mono |-> TRUE]
        /\ h = [mode |-> "closed", newver |-> 2, keep |-> FALSE]
        /\ lay = <<>> /\ pend = {} /\ kf = {}

Config == Step /\ e.ev = "config" /\ KeepState /\ UNCHANGED kf

Reset == /\ Step /\ e.ev = "reset"
         /\ live' = <<>> /\ next' = 0 /\ lay' = <<>> /\ pend' = {}
         /\ cfg' = [keys |-> e.keys, times |-> e.times, mono |-> e.mono]
         /\ h' = [mode |-> "closed", newver |-> 2, keep |-> FALSE]
         /\ UNCHANGED kf

\* ---- handles (single handle histories; C19 has its own spec for several handles)
Open == /\ Step /\ e.ev = "open" /\ h.mode = "closed"
        /\ IF e.j THEN Must(e.err = "") ELSE UNCHANGED kf
        /\ h' = IF e.err = "" THEN [mode |-> e.mode, newver |-> e.newver, keep |-> e.keep] ELSE h
        /\ UNCHANGED <<live, next, cfg, lay, pend>>
Close == /\ Step /\ e.ev = "close" /\ h.mode # "closed"
         /\ IF e.j THEN Must(e.err = "") ELSE UNCHANGED kf
         /\ h' = [h EXCEPT !.mode = "closed"]
         /\ UNCHANGED <<live, next, cfg, lay, pend>>

\* ---- C02
Publish == /\ Step /\ e.ev = "publish"
           /\ IF h.mode = "ro"
              THEN Must(e.err = "Readonly") /\ UNCHANGED <<live, next>>
              ELSE /\ IF e.j THEN Must(PublishOK(next, Len(e.batch), e)) ELSE UNCHANGED kf
                   /\ IF e.err = "" /\ Len(e.assigned) = Len(e.batch)
                      THEN next' = e.next /\ live' = live \o Stamp(e.batch, e.assigned)
                      ELSE UNCHANGED <<live, next>>
           /\ UNCHANGED <<cfg, h, lay, pend>>
NextOff == /\ Step /\ e.ev = "nextoffset" /\ Must(NextOffsetOK(next, e)) /\ KeepState
SyncA == /\ Step /\ e.ev = "sync" /\ Must(NextOffsetOK(next, e)) /\ KeepState
GCA == /\ Step /\ e.ev = "gc" /\ Must(e.err = "") /\ KeepState

\* ---- C12
DelVers(r) == [o \in Offs(r.deleted) |-> r.vers[CHOOSE i \in 1..Len(r.deleted) : r.deleted[i].off = o]]
Delete == /\ Step /\ e.ev = "delete"
          /\ IF h.mode = "ro"
             THEN \* DeleteMulti of an empty set never reaches Delete
                  Must(e.deleted = <<>> /\ (e.err = "Readonly" \/ (e.multi /\ e.S = <<>> /\ e.err = ""))) /\ UNCHANGED live
             ELSE /\ IF e.j THEN Must(IF e.multi THEN DeleteMultiOK(live, DelVers(e), Par, SetOf(e.S), e)
                                                 ELSE DeleteOK(live, DelVers(e), Par, SetOf(e.S), e))
                            ELSE UNCHANGED kf
                  /\ live' = DeleteEffect(live, e)
          /\ UNCHANGED <<next, cfg, h, lay, pend>>

\* ---- C01: a full cursor scan from OffsetOldest
Scan == /\ Step /\ e.ev = "scan" /\ KeepState
        /\ Must(e.err = "" /\ ScanOK(live, e.msgs) /\ e.end = next)

\* ---- C03 / C04 / C09 / C10
Consume == /\ Step /\ e.ev = "consume" /\ KeepState
           /\ Must(ConsumeOK(live, next, e.off, e.max, e))
Get == /\ Step /\ e.ev = "get" /\ KeepState
       /\ Verdict(GetOK(live, next, e.off, One(e)), "KF-none", FALSE)
GetByKey == /\ Step /\ e.ev = "getbykey" /\ KeepState
            /\ Must(GetByKeyOK(live, cfg.keys, e.key, One(e)))
OffsetByKey == /\ Step /\ e.ev = "offsetbykey" /\ KeepState
               /\ Must(OffsetByKeyOK(live, cfg.keys, e.key, e))
ConsumeByKey == /\ Step /\ e.ev = "consumebykey" /\ KeepState
                /\ Must(ConsumeByKeyOK(live, next, cfg.keys, e.key, e.off, e.max, e))
GetByTime == /\ Step /\ e.ev = "getbytime" /\ KeepState
             /\ Must(cfg.mono => GetByTimeOK(live, cfg.times, e.t, One(e)))   \* C10's premise: times never decrease
OffsetByTime == /\ Step /\ e.ev = "offsetbytime" /\ KeepState
                /\ Must(cfg.mono => OffsetByTimeOK(live, cfg.times, e.t, e))

\* ---- C13: Stat against the file system totals, Size(m) against the documented layout
Stat == /\ Step /\ e.ev = "stat" /\ KeepState
        /\ Must(StatOK(live, e.fsSegments, e.fsBytes, e))
SizeA == /\ Step /\ e.ev = "size" /\ KeepState
         /\ Must(SizeOK(e.msg, h.newver, Par, e.size))

\* Size(m) = the bytes a message adds to a segment: judged when no rollover happened and the head has the new-segment version
Grow == /\ Step /\ e.ev = "grow" /\ KeepState
        /\ Must((~e.rolled /\ e.samever) => e.delta = e.sum)
\* a directory written by the independent reference encoder: the abstract state is what was encoded
Synth == /\ Step /\ e.ev = "synth" /\ h.mode = "closed"
         /\ live' = e.msgs /\ next' = e.next
         /\ UNCHANGED <<cfg, h, lay, pend, kf>>

\* ---- projection of the directory by the reference codec (C11, C13, C17)
\* segs[i] = [base, ver, offs, parsed, exact, ixpresent, ixderived, ixver]
LayOf(segs) == [i \in 1..Len(segs) |-> [base |-> segs[i].base, ver |-> segs[i].ver, offs |-> segs[i].offs]]
FlatOffs(segs) == FoldLeft(LAMBDA acc, s : acc \o s.offs, <<>>, segs)
Layout == /\ Step /\ e.ev = "layout"
          /\ lay' = LayOf(e.segs)
          /\ IF e.j THEN Must(LayoutOK(live, next, cfg, e.segs, e.stale)) ELSE UNCHANGED kf
          /\ UNCHANGED <<live, next, cfg, h, pend>>

\* ---- C15
FindJudged == IF e.kind = "age" /\ cfg.times /\ live = <<>> /\ e.err = "InvalidOffset"
              THEN e.R = <<>>                              \* like GetByTime on an empty log
              ELSE /\ e.err = ""
                   /\ CASE e.kind = "offset" -> FindByOffsetOK(live, e.arg, SetOf(e.R))
                        [] e.kind = "count" -> FindByCountOK(live, e.arg, SetOf(e.R))
                        [] e.kind = "size" -> FindBySizeOK(live, e.statSize, e.arg, Est, SetOf(e.R))
                        [] e.kind = "age" -> FindByAgeOK(live, e.arg, SetOf(e.R), cfg.mono \/ (~cfg.times /\ NonDecreasingTimes(live)))
Find == /\ Step /\ e.ev = "find"
        /\ pend' = SetOf(e.R)
        /\ IF e.j THEN Must(FindJudged) ELSE UNCHANGED kf
        /\ UNCHANGED <<live, next, cfg, h, lay>>
Trim == /\ Step /\ e.ev = "trim"
        /\ LET D == SetOf(e.D) IN
           /\ IF e.j THEN Must(e.err = "" /\ (IF e.multi THEN D = pend ELSE D \subseteq pend))
                     ELSE UNCHANGED kf
           /\ live' = Minus(live, D)
        /\ UNCHANGED <<next, cfg, h, lay, pend>>
SizeBound == /\ Step /\ e.ev = "sizebound" /\ KeepState
             /\ Must(TrimBySizeBoundOK(live, e.statSize, e.arg))

\* ---- C16
Compact == /\ Step /\ e.ev = "compact"
           /\ LET D == SetOf(e.D) after == Minus(live, D) IN
              /\ IF e.j
                 THEN Must(e.err = "" /\ D \subseteq Offs(live) /\
                      (CASE e.kind = "updates" -> CompactUpdatesOK(live, e.cutoff, D, after, e.multi)
                         [] e.kind = "deletes" -> CompactDeletesOK(live, e.cutoff, D, after)
                         [] e.kind = "both" -> CompactBothOK(live, e.cutoff, e.cutoff2, D, after)))
                 ELSE UNCHANGED kf
              /\ live' = after
           /\ UNCHANGED <<next, cfg, h, lay, pend>>

\* ---- C17: offline migration; version rules are judged on the following layout event
Migrate == /\ Step /\ e.ev = "migrate" /\ h.mode = "closed" /\ Must(e.err = "") /\ KeepState
VersionRule == /\ Step /\ e.ev = "versions" /\ KeepState
               /\ Must(VersionsOK(lay, e.after, e.op, e.newver, e.keep, e.eager, e.target))

\* ---- user removes index files while the log is closed (C11)
RmIndex == /\ Step /\ e.ev = "rmindex" /\ h.mode = "closed" /\ KeepState /\ UNCHANGED kf

\* ---- C11 / C19 / C20: an observation digest must equal the reference digest taken earlier
\* (the digest is the full list of answers to a fixed query sweep; equality is decided here)
Same == /\ Step /\ e.ev = "same" /\ KeepState
        /\ Must(e.a = e.b)

\* ---- C20
Backup == /\ Step /\ e.ev = "backup" /\ KeepState /\ Must(e.err = "")
BackupObs == /\ Step /\ e.ev = "backupobs" /\ KeepState
             /\ Must(e.err = "" /\ e.check = "" /\ ScanOK(live, e.msgs) /\ e.next = next)

\* ---- C19: read-only handles
Reject == /\ Step /\ e.ev = "reject" /\ KeepState /\ Must(ReadonlyRejectOK(e))

Next == \/ Config \/ Reset \/ Open \/ Close \/ Publish \/ NextOff \/ SyncA \/ GCA \/ Delete \/ Scan
        \/ Consume \/ Get \/ GetByKey \/ OffsetByKey \/ ConsumeByKey \/ GetByTime \/ OffsetByTime
        \/ Stat \/ SizeA \/ Grow \/ Synth \/ Layout \/ Find \/ Trim \/ SizeBound \/ Compact \/ Migrate \/ VersionRule
        \/ RmIndex \/ Same \/ Backup \/ BackupObs \/ Reject
Spec == Init /\ [][Next]_vars

\* acceptance: one state per line plus the initial state
Accepted == /\ PrintT(<<"TRACE-DEPTH", TLCGet("stats").diameter - 1, Len(Trace)>>)
            /\ TLCGet("stats").diameter - 1 = Len(Trace)
\* report known findings (evaluated as an invariant: prints when the set grows)
KFReport == kf = {} \/ PrintT(<<"KF-HIT", kf, l - 1>>)
=============================================================================
