SPECIFICATION TSpec
CONSTANTS
  H = {1, 2, 3}
  MaxLen = 0
INVARIANTS OneWriter WriterExclusive
POSTCONDITION Accepted
CHECK_DEADLOCK FALSE
