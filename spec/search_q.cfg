SPECIFICATION Spec
CONSTANTS
  MaxLen = 7
  MaxVal = 8
  MaxLenT = 5
INVARIANTS Inv
