------------------------------- MODULE KlevFS -------------------------------
(* C05, design level: file-level model.  Every operation COMPILES TO A PLAN of  *)
(* file-system primitives (create, header, append, fsync, rename, remove,       *)
(* dirsync) computed from the current directory by operators that follow the    *)
(* code line by line; a crash is a prefix of a plan (plus the torn variants of  *)
(* an interrupted append); recovery is the plan of Open with Recover applied to *)
(* the image.  Crash safety is evaluated FUNCTIONALLY as an invariant over all  *)
(* enabled operations x plan prefixes x torn classes (Crash1) and over the      *)
(* prefixes of the recovery plan itself (Crash2), so the state space stays the  *)
(* no-crash space.  V2 only; one record = its offset, an index item = the       *)
(* offset it indexes (positions are implied by order).                          *)
(* The Fix* constants switch between the code as pinned and the code with the   *)
(* fix: commits (F06, F09, F11); KnownRebase exempts the open finding KF-C05-1. *)
EXTENDS Integers, Sequences, FiniteSets, SequencesExt, FiniteSetsExt, TLC

CONSTANTS MaxOff, RollAt, AutoSync, MaxDel, FixRecoverStale, FixShortHdr, FixTailOrder, KnownRebase,
          FreshTmp   \* the temporary files of a rewrite get a random suffix: a leftover of a crashed rewrite is never reused

VARIABLES dir,   \* name -> file ; name = <<base, kind, sfx>>
          h,     \* handle: [open, next]
          live, nxt  \* ghost: acknowledged abstract state
vars == <<dir, h, live, nxt>>

LastOf(s) == s[Len(s)]
LogN(b) == <<b, "log", "">>
IdxN(b) == <<b, "index", "">>
RwLog(b) == <<b, "log", "rw">>
RwIdx(b) == <<b, "index", "rw">>
RcLog(b) == <<b, "log", "rc">>

\* ver: the record format of a log file; for an index file, the format of the log its positions were computed for
\* (an index left over from before a migration points into the old layout).  Everything here writes format 2;
\* KlevFSMig.tla adds the migrations that create format-1 files.
EmptyFile == [hdr |-> FALSE, data |-> <<>>, torn |-> "", ver |-> 2]
Exists(d, n) == n \in DOMAIN d

\* ---- primitive semantics
Put(d, n, f) == [x \in (DOMAIN d) \cup {n} |-> IF x = n THEN f ELSE d[x]]
Del(d, n) == [x \in (DOMAIN d) \ {n} |-> d[x]]

Apply(d, p) ==
  CASE p.p = "create" -> IF Exists(d, p.n) THEN d ELSE Put(d, p.n, EmptyFile)
    [] p.p = "createv" -> Put(d, p.n, [EmptyFile EXCEPT !.ver = p.v, !.hdr = TRUE])     \* create or truncate, format v
    [] p.p = "hdr"    -> IF d[p.n].hdr THEN d ELSE Put(d, p.n, [d[p.n] EXCEPT !.hdr = TRUE])
    [] p.p = "append" -> IF d[p.n].torn # "" THEN Put(d, p.n, [d[p.n] EXCEPT !.torn = "junk"])
                         ELSE LET lg == <<p.n[1], "log", p.n[3]>>
                                  \* the first item of an index fixes which log format its positions refer to
                                  v == IF p.n[2] = "index" /\ d[p.n].data = <<>> /\ Exists(d, lg) THEN d[lg].ver ELSE d[p.n].ver
                              IN Put(d, p.n, [d[p.n] EXCEPT !.data = Append(@, p.x), !.ver = v])
    [] p.p = "rename" -> Put(Del(d, p.n), p.m, d[p.n])
    [] p.p = "remove" -> Del(d, p.n)
    [] OTHER -> d      \* fsync, dirsync, close: no effect on a process-crash image

RECURSIVE ApplyAll(_, _)
ApplyAll(d, plan) == IF plan = <<>> THEN d ELSE ApplyAll(Apply(d, Head(plan)), Tail(plan))

Create(n) == <<[p |-> "create", n |-> n], [p |-> "hdr", n |-> n]>>
CreateV(n, v) == <<[p |-> "createv", n |-> n, v |-> v]>>
App(n, x) == [p |-> "append", n |-> n, x |-> x]
Apps(n, xs) == [i \in 1..Len(xs) |-> App(n, xs[i])]
Fsync(n) == [p |-> "fsync", n |-> n]
Ren(n, m) == [p |-> "rename", n |-> n, m |-> m]
Rem(n) == [p |-> "remove", n |-> n]
DirSync == IF AutoSync THEN <<[p |-> "dirsync"]>> ELSE <<>>

\* ---- directory view
Bases(d) == {n[1] : n \in {x \in DOMAIN d : x[2] = "log" /\ x[3] = ""}}
SegList(d) == SetToSortSeq(Bases(d), <)
HeadBase(d) == LastOf(SegList(d))
LogData(d, b) == d[LogN(b)].data

NewHead(b) == Create(LogN(b)) \o Create(IdxN(b))

\* ---- plans of the public operations (d = current directory, handle open)
PlanPublish(d, next, n) ==
  LET hb == HeadBase(d)
      roll == Len(LogData(d, hb)) >= RollAt
      cur == IF roll THEN next ELSE hb
      pre == IF roll THEN <<Fsync(LogN(hb)), Fsync(IdxN(hb))>> \o NewHead(next) ELSE <<>>
      RECURSIVE W(_)
      W(i) == IF i >= n THEN <<>> ELSE <<App(LogN(cur), next + i), App(IdxN(cur), next + i)>> \o W(i + 1)
  IN pre \o W(0) \o (IF AutoSync THEN <<Fsync(LogN(cur)), Fsync(IdxN(cur))>> ELSE <<>>)

SegOf(d, off) == LET sl == SegList(d) IN
                 IF off < sl[1] THEN -1
                 ELSE sl[CHOOSE i \in 1..Len(sl) : sl[i] <= off /\ (i = Len(sl) \/ sl[i+1] > off)]

PlanDelete(d, next, S) ==
  LET b == SegOf(d, Min(S)) IN
  IF b = -1 THEN <<>> ELSE
  LET src == LogData(d, b)
      surv == SelectSeq(src, LAMBDA o : o \notin S)
      del == SelectSeq(src, LAMBDA o : o \in S)
      isHead == b = HeadBase(d)
      sync == IF isHead THEN <<Fsync(LogN(b)), Fsync(IdxN(b))>> ELSE <<>>
      \* (a fresh name is modelled as create-or-truncate of the one name the model has; with the same name every time -
      \* seeded change S102 - the O_APPEND writer continues a leftover file)
      tmp(n) == IF FreshTmp THEN CreateV(n, 2) ELSE Create(n)
      rewrite == sync \o tmp(RwLog(b)) \o Apps(RwLog(b), surv) \o <<Fsync(RwLog(b))>>
                 \o tmp(RwIdx(b)) \o Apps(RwIdx(b), surv) \o <<Fsync(RwIdx(b))>>
      dropTmp == <<Rem(RwIdx(b)), Rem(RwLog(b))>>
      dropOld == <<Rem(IdxN(b)), Rem(LogN(b))>>
      tailGone == del # <<>> /\ LastOf(del) = LastOf(src)
      \* F11: the new empty head (it carries the next offset) is created before the old files are replaced
      headFirst == IF isHead /\ tailGone /\ FixTailOrder THEN NewHead(next) ELSE <<>>
      headLast == IF isHead /\ tailGone /\ ~FixTailOrder THEN NewHead(next) ELSE <<>>
  IN IF del = <<>> THEN rewrite \o dropTmp
     ELSE rewrite \o sync \o
       (IF surv = <<>>
        THEN dropTmp \o (IF isHead THEN NewHead(next) ELSE <<>>) \o dropOld
        ELSE IF surv[1] # b
             THEN headFirst \o <<Ren(RwLog(b), LogN(surv[1])), Ren(RwIdx(b), IdxN(surv[1]))>> \o DirSync \o dropOld
                  \o headLast
             ELSE headFirst \o <<Rem(IdxN(b)), Ren(RwLog(b), LogN(b)), Ren(RwIdx(b), IdxN(b))>> \o DirSync
                  \o headLast)

\* ---- Open with Recover (plan computed from the image)
Corrupted(f) == f.torn \in (IF FixShortHdr THEN {"h", "b", "junk"} ELSE {"b", "junk"})

PlanRecoverHead(d, b) ==
  LET f == d[LogN(b)]
      rc == RcLog(b)
      stale == IF FixRecoverStale /\ Exists(d, rc) THEN <<Rem(rc)>> ELSE <<>>
      copy == stale \o (IF f.ver = 2 THEN Create(rc) ELSE CreateV(rc, f.ver)) \o Apps(rc, f.data) \o <<Fsync(rc)>>
      swap == IF Corrupted(f) THEN <<Ren(rc, LogN(b))>> ELSE <<Rem(rc)>>
      ix == IF ~Exists(d, IdxN(b)) THEN <<>>
            ELSE LET g == d[IdxN(b)] IN
                 IF g.torn # "" THEN <<Rem(IdxN(b))>>              \* ErrCorrupted: removed, rebuilt later
                 ELSE IF g.data # f.data \/ (g.data # <<>> /\ g.ver # f.ver)
                      THEN <<Rem(IdxN(b))>> \o (IF f.ver = 2 THEN Create(IdxN(b)) ELSE CreateV(IdxN(b), f.ver))
                           \o Apps(IdxN(b), f.data) \o <<Fsync(IdxN(b))>>
                      ELSE <<>>
  IN copy \o swap \o ix

\* openWriter(head) after recover: header if empty, reindex if index missing/header-only
PlanOpenHead(d, b) ==
  LET f == d[LogN(b)]
      hdr == IF ~f.hdr /\ f.data = <<>> THEN <<[p |-> "hdr", n |-> LogN(b)]>> ELSE <<>>
      reix == IF f.data # <<>> /\ (~Exists(d, IdxN(b)) \/ d[IdxN(b)].data = <<>>)
              THEN (IF f.ver = 2 THEN Create(IdxN(b)) ELSE CreateV(IdxN(b), f.ver)) \o Apps(IdxN(b), f.data) \o <<Fsync(IdxN(b))>>
              ELSE Create(IdxN(b))
  IN hdr \o reix

\* full recovery of an image, returns the resulting directory
RecoverDir(d) ==
  IF Bases(d) = {} THEN ApplyAll(d, NewHead(0))
  ELSE LET b == HeadBase(d)
           d1 == ApplyAll(d, PlanRecoverHead(d, b))
       IN ApplyAll(d1, PlanOpenHead(d1, b))

PlanOpenRecover(d) ==
  IF Bases(d) = {} THEN NewHead(0)
  ELSE LET b == HeadBase(d)
           p1 == PlanRecoverHead(d, b)
           d1 == ApplyAll(d, p1)
       IN p1 \o PlanOpenHead(d1, b)

\* ---- what the reopened log shows (implementation-shaped read paths)
\* a segment is readable iff its log has no junk and its index (if any, non-empty) matches the log
SegItems(d, b) == LET f == d[LogN(b)] IN
                  IF Exists(d, IdxN(b)) /\ d[IdxN(b)].data # <<>> THEN d[IdxN(b)].data ELSE f.data
SegBroken(d, b) == LET f == d[LogN(b)] IN
                   \/ SegItems(d, b) # f.data
                   \/ (Exists(d, IdxN(b)) /\ d[IdxN(b)].torn # "" /\ b # HeadBase(d))
                   \/ (f.torn = "junk")
                   \/ (Exists(d, IdxN(b)) /\ d[IdxN(b)].data # <<>> /\ d[IdxN(b)].ver # f.ver)   \* positions of another format
NextOf(d) == LET b == HeadBase(d) IN IF LogData(d, b) = <<>> THEN b ELSE LastOf(LogData(d, b)) + 1

\* cursor scan as Log.Consume does it: segment by base, after-end hand-off to the next segment's oldest
RECURSIVE ScanFrom(_, _, _)
ScanFrom(d, off, fuel) ==
  IF fuel = 0 THEN <<-99>> ELSE
  LET sl == SegList(d)
      i == IF off <= sl[1] THEN 1
           ELSE CHOOSE k \in 1..Len(sl) : sl[k] <= off /\ (k = Len(sl) \/ sl[k+1] > off)
      its == SegItems(d, sl[i])
      from == SelectSeq(its, LAMBDA o : o >= off)
  IN IF from # <<>> THEN from \o ScanFrom(d, LastOf(from) + 1, fuel - 1)
     ELSE IF i < Len(sl)
          THEN LET nx == SegItems(d, sl[i+1]) IN
               IF nx = <<>> THEN <<>> ELSE nx \o ScanFrom(d, LastOf(nx) + 1, fuel - 1)
          ELSE <<>>
Scan(d) == ScanFrom(d, -2, 12)

GetSet(d) == {o \in 0..(MaxOff + 1) :
                LET b == SegOf(d, o) IN b # -1 /\ \E k \in 1..Len(SegItems(d, b)) : SegItems(d, b)[k] = o}
StatCount(d) == LET sl == SegList(d) IN
                IF sl = <<>> THEN 0 ELSE FoldLeft(LAMBDA acc, b : acc + Len(SegItems(d, b)), 0, sl)

StrictInc(s) == \A i \in 1..(Len(s) - 1) : s[i] < s[i+1]

ViewsAgree(d) == /\ \A b \in Bases(d) : ~SegBroken(d, b)
                 /\ StrictInc(Scan(d))
                 /\ {Scan(d)[i] : i \in 1..Len(Scan(d))} = GetSet(d)
                 /\ Len(Scan(d)) = StatCount(d)
                 /\ \A i \in 1..Len(Scan(d)) : Scan(d)[i] < NextOf(d)

IsPrefixOf(a, b) == Len(a) <= Len(b) /\ SubSeq(b, 1, Len(a)) = a

\* ---- the C05 statement, per in-flight operation
RecOK(r, allowed, minNext) ==
  /\ ViewsAgree(r)
  /\ Scan(r) \in allowed
  /\ NextOf(r) >= minNext
  /\ RecoverDir(r) = r                        \* recovering again changes nothing
  /\ LET a == ApplyAll(r, PlanPublish(r, NextOf(r), 1))   \* can be appended to, still consistent
     IN ViewsAgree(a) /\ Scan(a) = Scan(r) \o <<NextOf(r)>>
  \* ... and used further: any single Delete, then a reopen, removes exactly that message (whatever the interrupted
  \* operation left behind in the directory does not leak into later operations)
  /\ \A o \in {Scan(r)[i] : i \in 1..Len(Scan(r))} :
        LET a == RecoverDir(ApplyAll(r, PlanDelete(r, NextOf(r), {o})))
        IN ViewsAgree(a) /\ Scan(a) = SelectSeq(Scan(r), LAMBDA x : x # o) /\ NextOf(a) = NextOf(r)

\* all crash images of a plan: every prefix, and for a prefix ending before an append, torn variants
TornOf(p) == IF p.p = "append" THEN {"h", "b"} ELSE {}
Images(d, plan) ==
  {ApplyAll(d, SubSeq(plan, 1, k)) : k \in 0..Len(plan)} \cup
  {LET dk == ApplyAll(d, SubSeq(plan, 1, k - 1)) p == plan[k] IN
     Put(dk, p.n, [dk[p.n] EXCEPT !.torn = IF @ = "" THEN t ELSE "junk"]) :
       <<k, t>> \in {<<k, t>> \in (1..Len(plan)) \X {"h", "b"} : plan[k].p = "append" /\ t \in TornOf(plan[k])}}

\* KF-C05-1: old and rebased segment both on disk (overlapping offsets)
Overlap(d) == \E b1, b2 \in Bases(d) : b1 < b2 /\ LogData(d, b1) # <<>> /\ LastOf(LogData(d, b1)) >= b2
CrashSafe(plan, allowed, minNext) ==
  \A img \in Images(dir, plan) :
     LET r == RecoverDir(img) IN
     \/ RecOK(r, allowed, minNext)
     \/ (KnownRebase /\ Overlap(img))
     \/ PrintT(<<"CRASH-VIOLATION", plan, img, r, Scan(r), NextOf(r)>>) /\ FALSE

\* depth 2: crash inside the recovery of an image
CrashSafe2(plan, allowed, minNext) ==
  \A img \in Images(dir, plan) :
    \A img2 \in Images(img, PlanOpenRecover(img)) :
     LET r == RecoverDir(img2) IN
     \/ RecOK(r, allowed, minNext)
     \/ (KnownRebase /\ Overlap(img))
     \/ PrintT(<<"CRASH2-VIOLATION", plan, img, img2, r, Scan(r), NextOf(r)>>) /\ FALSE

-----------------------------------------------------------------------------
Init == /\ dir = ApplyAll(<<>>, NewHead(0))
        /\ h = [open |-> TRUE, next |-> 0]
        /\ live = <<>> /\ nxt = 0

Publish(n) ==
  /\ h.open /\ h.next + n <= MaxOff
  /\ dir' = ApplyAll(dir, PlanPublish(dir, h.next, n))
  /\ h' = [h EXCEPT !.next = @ + n]
  /\ live' = live \o [i \in 1..n |-> h.next + i - 1]
  /\ nxt' = nxt + n

Delete(S) ==
  /\ h.open
  /\ dir' = ApplyAll(dir, PlanDelete(dir, h.next, S))
  /\ LET b == SegOf(dir, Min(S))
         D == IF b = -1 THEN {} ELSE {o \in S : \E k \in 1..Len(LogData(dir, b)) : LogData(dir, b)[k] = o}
     IN live' = SelectSeq(live, LAMBDA o : o \notin D)
  /\ UNCHANGED <<h, nxt>>

Reopen == /\ h.open
          /\ dir' = RecoverDir(dir)
          /\ UNCHANGED <<h, live, nxt>>

DelSets == {S \in SUBSET (0..(MaxOff - 1)) : S # {} /\ Cardinality(S) <= MaxDel}

Next == \/ \E n \in 0..2 : Publish(n)
        \/ \E S \in DelSets : Delete(S)
        \/ Reopen
Spec == Init /\ [][Next]_vars

\* sanity: the no-crash world is consistent
NoCrashOK == ViewsAgree(dir) /\ Scan(dir) = live /\ NextOf(dir) = nxt /\ h.next = nxt

\* C05 at depth 1, functionally, for every enabled operation of every reachable state
Crash1 ==
  /\ \A n \in 0..2 : (h.next + n <= MaxOff) =>
        CrashSafe(PlanPublish(dir, h.next, n),
                  {live \o [i \in 1..j |-> h.next + i - 1] : j \in 0..n}, nxt)
  /\ \A S \in DelSets :
        LET b == SegOf(dir, Min(S))
            D == IF b = -1 THEN {} ELSE {o \in S : \E k \in 1..Len(LogData(dir, b)) : LogData(dir, b)[k] = o}
        IN CrashSafe(PlanDelete(dir, h.next, S), {live, SelectSeq(live, LAMBDA o : o \notin D)}, nxt)

Crash2 ==
  /\ \A n \in 0..2 : (h.next + n <= MaxOff) =>
        CrashSafe2(PlanPublish(dir, h.next, n),
                  {live \o [i \in 1..j |-> h.next + i - 1] : j \in 0..n}, nxt)
  /\ \A S \in DelSets :
        LET b == SegOf(dir, Min(S))
            D == IF b = -1 THEN {} ELSE {o \in S : \E k \in 1..Len(LogData(dir, b)) : LogData(dir, b)[k] = o}
        IN CrashSafe2(PlanDelete(dir, h.next, S), {live, SelectSeq(live, LAMBDA o : o \notin D)}, nxt)
=============================================================================
