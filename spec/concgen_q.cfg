SPECIFICATION Spec
CONSTANTS
  MaxOff = 4
  RollAt = 2
  NDel = 2
  NCons = 1
  NGet = 1
  MaxDel = 2
  FixStale = TRUE
VIEW view
INVARIANTS QuiescentOK HeadFlagOK Emit
CHECK_DEADLOCK FALSE
