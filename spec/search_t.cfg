SPECIFICATION Spec
CONSTANTS
  MaxLen = 10
  MaxVal = 11
  MaxLenT = 5
INVARIANTS Inv
