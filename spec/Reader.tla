------------------------------- MODULE Reader -------------------------------
(* C08, design level, the part KlevConc abstracts away: lazy load / unload of   *)
(* ONE closed segment's reader (log_reader.go: getIndexMarked, getMessages, GC) *)
(* under concurrent consumers and GC calls (both run under the log's readersMu  *)
(* READ lock, so they do overlap).                                              *)
(*                                                                              *)
(*   consumer:  getIndexMarked  (indexMu.RLock fast path | indexMu.Lock, load   *)
(*              unless somebody else did)   -> index.Consume on the local ref   *)
(*              getMessages     (messagesMu.RLock fast path: inuse+1 UNDER the  *)
(*              read lock | messagesMu.Lock, open unless somebody else did,     *)
(*              inuse+1)        -> messages.Consume on the local handle         *)
(*              -> inuse-1                                                      *)
(*   GC:        closeIndex (indexMu.Lock; index = nil) -> messagesMu.Lock ->    *)
(*              messages == nil or inuse > 0: leave | Close (munmap), = nil     *)
(*                                                                              *)
(* One action per lock acquisition / critical section / pause point             *)
(* (reader.index.loading, reader.consume.index, reader.messages.loading,        *)
(* reader.consume.messages, reader.gc.index-closed).                            *)
(* Properties: NoUseAfterClose (a handle is never read after munmap: that is a  *)
(* SIGSEGV in the code), InuseExact, NoLeak (every handle ever opened is the    *)
(* current one or closed), no deadlock.                                         *)
(* Negative controls: IncLate (the fast path counts the user after releasing    *)
(* the read lock) violates NoUseAfterClose; NoRecheck (the slow paths do not    *)
(* look again under the write lock) violates NoLeak; NoCountRecheck (the        *)
(* re-check branch hands out the shared reader without counting the user:       *)
(* seeded change S83) violates InuseExact and then NoUseAfterClose.             *)
EXTENDS Integers, FiniteSets, TLC

CONSTANTS Consumers, NCalls, NGC, IncLate, NoRecheck, NoCountRecheck

VARIABLES index, msgs, opened, closed, inuse, imu, mmu, pc, loc, budget
vars == <<index, msgs, opened, closed, inuse, imu, mmu, pc, loc, budget>>

Procs == Consumers \cup {"gc"}
Free == [w |-> "-", r |-> {}]
CanR(m) == m.w = "-"
CanW(m) == m.w = "-" /\ m.r = {}
NewId == Cardinality(opened) + 1

Init == /\ index = 0 /\ msgs = 0 /\ opened = {} /\ closed = {} /\ inuse = 0
        /\ imu = Free /\ mmu = Free
        /\ pc = [p \in Procs |-> "idle"]
        /\ loc = [p \in Procs |-> [ix |-> 0, h |-> 0]]
        /\ budget = [p \in Procs |-> IF p = "gc" THEN NGC ELSE NCalls]

Goto(p, l) == pc' = [pc EXCEPT ![p] = l]

\* ---- consumer: getIndexMarked
CStart(p) == /\ pc[p] = "idle" /\ budget[p] > 0 /\ CanR(imu)
             /\ imu' = [imu EXCEPT !.r = @ \cup {p}]
             /\ budget' = [budget EXCEPT ![p] = @ - 1]
             /\ Goto(p, "i_fast")
             /\ UNCHANGED <<index, msgs, opened, closed, inuse, mmu, loc>>
CIxFast(p) == /\ pc[p] = "i_fast"
              /\ imu' = [imu EXCEPT !.r = @ \ {p}]
              /\ IF index # 0 THEN loc' = [loc EXCEPT ![p].ix = index] /\ Goto(p, "m_start")
                 ELSE UNCHANGED loc /\ Goto(p, "i_wlock")
              /\ UNCHANGED <<index, msgs, opened, closed, inuse, mmu, budget>>
CIxLock(p) == /\ pc[p] = "i_wlock" /\ CanW(imu)
              /\ imu' = [imu EXCEPT !.w = p]
              /\ Goto(p, "i_load")                                  \* pause point reader.index.loading
              /\ UNCHANGED <<index, msgs, opened, closed, inuse, mmu, loc, budget>>
CIxLoad(p) == /\ pc[p] = "i_load"
              /\ IF index # 0 /\ ~NoRecheck
                 THEN loc' = [loc EXCEPT ![p].ix = index] /\ UNCHANGED index
                 ELSE index' = 1 /\ loc' = [loc EXCEPT ![p].ix = 1]                 \* ReindexAndReadIndex
              /\ imu' = Free
              /\ Goto(p, "m_start")                                 \* pause point reader.consume.index
              /\ UNCHANGED <<msgs, opened, closed, inuse, mmu, budget>>

\* ---- consumer: getMessages
CMsRLock(p) == /\ pc[p] = "m_start" /\ CanR(mmu)
               /\ mmu' = [mmu EXCEPT !.r = @ \cup {p}]
               /\ Goto(p, "m_fast")
               /\ UNCHANGED <<index, msgs, opened, closed, inuse, imu, loc, budget>>
CMsFast(p) == /\ pc[p] = "m_fast"
              /\ mmu' = [mmu EXCEPT !.r = @ \ {p}]
              /\ IF msgs # 0
                 THEN /\ loc' = [loc EXCEPT ![p].h = msgs]
                      /\ IF IncLate THEN UNCHANGED inuse /\ Goto(p, "m_inc") ELSE inuse' = inuse + 1 /\ Goto(p, "reading")
                 ELSE UNCHANGED <<loc, inuse>> /\ Goto(p, "m_wlock")
              /\ UNCHANGED <<index, msgs, opened, closed, imu, budget>>
CMsIncLate(p) == /\ pc[p] = "m_inc" /\ inuse' = inuse + 1 /\ Goto(p, "reading")
                 /\ UNCHANGED <<index, msgs, opened, closed, imu, mmu, loc, budget>>
CMsLock(p) == /\ pc[p] = "m_wlock" /\ CanW(mmu)
              /\ mmu' = [mmu EXCEPT !.w = p]
              /\ Goto(p, "m_load")                                  \* pause point reader.messages.loading
              /\ UNCHANGED <<index, msgs, opened, closed, inuse, imu, loc, budget>>
CMsLoad(p) == /\ pc[p] = "m_load"
              /\ IF msgs # 0 /\ ~NoRecheck
                 THEN loc' = [loc EXCEPT ![p].h = msgs] /\ UNCHANGED <<msgs, opened>>
                 ELSE /\ msgs' = NewId /\ opened' = opened \cup {NewId}          \* message.OpenReaderMem (mmap)
                      /\ loc' = [loc EXCEPT ![p].h = NewId]
              /\ inuse' = IF msgs # 0 /\ ~NoRecheck /\ NoCountRecheck THEN inuse ELSE inuse + 1
              /\ mmu' = Free
              /\ Goto(p, "reading")                                 \* pause point reader.consume.messages
              /\ UNCHANGED <<index, closed, imu, budget>>
\* messages.Consume on the local handle: reading an unmapped handle is the failure
CRead(p) == /\ pc[p] = "reading"
            /\ Goto(p, "release")
            /\ UNCHANGED <<index, msgs, opened, closed, inuse, imu, mmu, loc, budget>>
CRelease(p) == /\ pc[p] = "release" /\ inuse' = inuse - 1
               /\ loc' = [loc EXCEPT ![p] = [ix |-> 0, h |-> 0]]
               /\ Goto(p, "idle")
               /\ UNCHANGED <<index, msgs, opened, closed, imu, mmu, budget>>

\* ---- GC
GStart == /\ pc["gc"] = "idle" /\ budget["gc"] > 0 /\ CanW(imu)        \* closeIndex: Lock; index = nil; Unlock
          /\ index' = 0
          /\ budget' = [budget EXCEPT !["gc"] = @ - 1]
          /\ Goto("gc", "g_mlock")                                       \* pause point reader.gc.index-closed
          /\ UNCHANGED <<msgs, opened, closed, inuse, imu, mmu, loc>>
GLock == /\ pc["gc"] = "g_mlock" /\ CanW(mmu)
         /\ mmu' = [mmu EXCEPT !.w = "gc"]
         /\ Goto("gc", "g_check")
         /\ UNCHANGED <<index, msgs, opened, closed, inuse, imu, loc, budget>>
GCheck == /\ pc["gc"] = "g_check"
          /\ IF msgs = 0 \/ inuse > 0 THEN UNCHANGED <<msgs, closed>>
             ELSE closed' = closed \cup {msgs} /\ msgs' = 0            \* messages.Close (munmap)
          /\ mmu' = Free
          /\ Goto("gc", "idle")
          /\ UNCHANGED <<index, opened, inuse, imu, loc, budget>>

Done == \A p \in Procs : pc[p] = "idle" /\ budget[p] = 0
Next == \/ \E p \in Consumers : \/ CStart(p) \/ CIxFast(p) \/ CIxLock(p) \/ CIxLoad(p)
                                \/ CMsRLock(p) \/ CMsFast(p) \/ CMsIncLate(p) \/ CMsLock(p) \/ CMsLoad(p)
                                \/ CRead(p) \/ CRelease(p)
        \/ GStart \/ GLock \/ GCheck
        \/ (Done /\ UNCHANGED vars)
Spec == Init /\ [][Next]_vars /\ WF_vars(Next)

-----------------------------------------------------------------------------
Counted(p) == pc[p] \in {"reading", "release"}
NoUseAfterClose == \A p \in Consumers : Counted(p) => loc[p].h \notin closed
InuseExact == inuse = Cardinality({p \in Consumers : Counted(p)})
CurrentOpen == msgs # 0 => msgs \in opened \ closed
NoLeak == (opened \ closed) \subseteq {msgs}
MutexSane == /\ imu.w # "-" => imu.r = {}
             /\ mmu.w # "-" => mmu.r = {}
\* no deadlock (TLC's deadlock check; Done stutters) and every call returns
Terminates == <>Done
=============================================================================
