SPECIFICATION Spec
CONSTANTS
  HashOf <- mcHash
  KLenOf <- mcKLen
  KeySet <- mcKeys3
  TimeSet = {1}
  VLens = {0, 4}
  MaxOff = 5
  MaxBatch = 2
  MaxSets = 2
  Rollovers = {60, 1000}
  Versions = {2}
  KeyIndex = TRUE
  TimeIndex = FALSE
  OptKeep <- FF
  OptEager <- FF
  OptCheck <- FF
  OptRecover <- FF
  AllowRO = TRUE
  AllowRmIndex = FALSE
  AllowMigrate = FALSE
VIEW view
INVARIANTS Fidelity NextOK NextDerivable Sorted FirstIsBase IndexDerived IndexLen GetByKeyInv ConsumeByKeyInv
CHECK_DEADLOCK FALSE
