SPECIFICATION Spec
CONSTANTS
  Waiters <- mcWaiters
  Setters <- mcSetters
  WOff <- mcWOff
  SVal <- mcSVal
  MaxChan = 5
  CanClose = TRUE
  Cancels <- mcCancels
  ProbeFirst = FALSE
VIEW view
INVARIANTS Emit
CHECK_DEADLOCK FALSE
