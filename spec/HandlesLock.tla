---------------------------- MODULE HandlesLock ----------------------------
(* C19, one level below Handles.tla: WHY the results Handles.tla demands come   *)
(* out of klevdb.Open - the advisory lock (gofrs/flock: open <dir>/.lock with   *)
(* O_CREATE, flock(LOCK_EX | LOCK_SH, LOCK_NB) on the open file description,    *)
(* funlock + close) with the FILE IDENTITY made explicit: a lock is held on an  *)
(* inode, the path <dir>/.lock merely names one.  An Open is four steps        *)
(* (open/create the lock file -> try the lock -> the rest of Open, which may    *)
(* fail -> handle or release), so two Opens interleave.                         *)
(* OneWriter / WriterExclusive hold because every handle locks the SAME inode:  *)
(* nothing ever unlinks the lock file.  Negative control RemoveOnFail (a failed *)
(* Open "cleans up" the lock file: seeded change S36) breaks WriterExclusive:   *)
(* the next Open creates a new inode and locks that one.                        *)
EXTENDS Integers, FiniteSets, TLC

CONSTANTS H, MaxInode, RemoveOnFail

VARIABLES path,    \* inode currently named <dir>/.lock, 0 = no such file
          used,    \* inodes created so far
          lk,      \* inode -> set of <<handle, "ex" | "sh">> locks held on it
          fd,      \* handle -> inode its lock file descriptor refers to (0 = none)
          st,      \* handle -> "closed" | "opened" (has fd) | "locked" | "rw" | "ro"
          want,    \* handle -> mode of the Open in progress
          res      \* handle -> result of its last Open: "" | "ok" | "Locked" | "Failed"
vars == <<path, used, lk, fd, st, want, res>>

Init == /\ path = 0 /\ used = {} /\ lk = [i \in 1..MaxInode |-> {}]
        /\ fd = [h \in H |-> 0] /\ st = [h \in H |-> "closed"]
        /\ want = [h \in H |-> "rw"] /\ res = [h \in H |-> ""]

\* flock.New(path) + open(O_CREATE): the file the path names now, created if there is none
OpenFile(h, mode) ==
  /\ st[h] = "closed"
  /\ want' = [want EXCEPT ![h] = mode]
  /\ res' = [res EXCEPT ![h] = ""]
  /\ IF path # 0
     THEN /\ fd' = [fd EXCEPT ![h] = path] /\ UNCHANGED <<path, used>>
     ELSE /\ Cardinality(used) < MaxInode
          /\ LET i == Cardinality(used) + 1 IN
             /\ path' = i /\ used' = used \cup {i} /\ fd' = [fd EXCEPT ![h] = i]
  /\ st' = [st EXCEPT ![h] = "opened"]
  /\ UNCHANGED lk

Ex(i) == {x \in lk[i] : x[2] = "ex"}
\* flock(fd, LOCK_EX|LOCK_NB) / flock(fd, LOCK_SH|LOCK_NB)
TryLock(h) ==
  /\ st[h] = "opened"
  /\ LET i == fd[h]
         ok == IF want[h] = "rw" THEN lk[i] = {} ELSE Ex(i) = {}
     IN IF ok
        THEN /\ lk' = [lk EXCEPT ![i] = @ \cup {<<h, IF want[h] = "rw" THEN "ex" ELSE "sh">>}]
             /\ st' = [st EXCEPT ![h] = "locked"]
             /\ UNCHANGED <<fd, res>>
        ELSE /\ fd' = [fd EXCEPT ![h] = 0]                       \* "open already locked": close the descriptor
             /\ st' = [st EXCEPT ![h] = "closed"]
             /\ res' = [res EXCEPT ![h] = "Locked"]
             /\ UNCHANGED lk
  /\ UNCHANGED <<path, used, want>>

Release(h) == /\ lk' = [lk EXCEPT ![fd[h]] = {x \in @ : x[1] # h}]
              /\ fd' = [fd EXCEPT ![h] = 0]
\* the rest of Open: segment scan, Check, Recover, open the writer ...
Succeed(h) == /\ st[h] = "locked"
              /\ st' = [st EXCEPT ![h] = want[h]] /\ res' = [res EXCEPT ![h] = "ok"]
              /\ UNCHANGED <<path, used, lk, fd, want>>
\* ... or a failure part-way (Check of a damaged head): the deferred Unlock
Fail(h) == /\ st[h] = "locked"
           /\ Release(h)
           /\ st' = [st EXCEPT ![h] = "closed"] /\ res' = [res EXCEPT ![h] = "Failed"]
           /\ path' = IF RemoveOnFail THEN 0 ELSE path
           /\ UNCHANGED <<used, want>>
Close(h) == /\ st[h] \in {"rw", "ro"}
            /\ Release(h)
            /\ st' = [st EXCEPT ![h] = "closed"]
            /\ UNCHANGED <<path, used, want, res>>

Next == \E h \in H : \/ \E m \in {"rw", "ro"} : OpenFile(h, m)
                     \/ TryLock(h) \/ Succeed(h) \/ Fail(h) \/ Close(h)
Spec == Init /\ [][Next]_vars

-----------------------------------------------------------------------------
Writers == {h \in H : st[h] = "rw"}
Readers == {h \in H : st[h] = "ro"}
OneWriter == Cardinality(Writers) <= 1
WriterExclusive == Writers # {} => Readers = {}
\* why: every lock that is held is held on the inode the path names (there has only ever been one)
OneLockFile == Cardinality(used) <= 1
LocksConsistent == \A i \in 1..MaxInode : /\ Cardinality(Ex(i)) <= 1
                                          /\ (Ex(i) # {} => lk[i] = Ex(i))
\* the result Handles.tla demands (OpenResult): an Open is refused exactly when a conflicting handle - or a
\* conflicting Open that already holds the lock - exists at the moment of its flock call
Holder(h) == st[h] \in {"locked", "rw", "ro"}
RefusalJustified == [][\A h \in H : (res'[h] = "Locked" /\ res[h] # "Locked") =>
                          \E g \in H \ {h} : Holder(g) /\ (want[h] = "rw" \/ want[g] = "rw")]_vars
\* the lock is released by Close and by a failed Open
Released == (\A h \in H : st[h] = "closed") => \A i \in 1..MaxInode : lk[i] = {}
=============================================================================
