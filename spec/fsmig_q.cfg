SPECIFICATION MSpec
CONSTANTS
  MaxOff = 4
  RollAt = 2
  AutoSync = FALSE
  MaxDel = 1
  FixRecoverStale = TRUE
  FixShortHdr = TRUE
  FixTailOrder = TRUE
  KnownRebase = TRUE
  KeepIndex = FALSE
INVARIANTS NoCrashOK MigrateOK CrashM1 CrashM2 Crash1
CHECK_DEADLOCK FALSE
