SPECIFICATION MSpec
CONSTANTS
  MaxOff = 4
  RollAt = 2
  AutoSync = FALSE
  MaxDel = 1
  FixRecoverStale = TRUE
  FixShortHdr = TRUE
  FixTailOrder = TRUE
  FreshTmp = TRUE
  KnownRebase = TRUE
  KeepIndex = TRUE
INVARIANTS CrashM1
CHECK_DEADLOCK FALSE
