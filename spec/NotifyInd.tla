---- MODULE NotifyInd ----
(* C18, design level, beyond what TLC can enumerate: an INDUCTIVE invariant of   *)
(* Notify.tla, discharged by Apalache for 8 waiters (every offset below, at and  *)
(* above the values set), 3 setters, Close and cancellations:                    *)
(*   IndInit => IndInv   and   IndInv /\ Next => IndInv'                         *)
(* so NoLostWakeup, Caused and TokenMutex hold in EVERY reachable state, for     *)
(* behaviours of any length.  hist (the schedule recorder) is not read by any    *)
(* action guard or effect on another variable, so it is left out of IndInv.      *)
EXTENDS Notify

W8 == {"w1", "w2", "w3", "w4", "w5", "w6", "w7", "w8"}
S3 == {"s1", "s2", "s3"}
\* thorough: 8 waiters at ANY offsets in 0..3, 3 setters with ANY values in 0..3, ANY set of cancellable waiters
ConstInitT ==
  /\ Waiters = W8
  /\ Setters = S3
  /\ WOff \in [W8 -> 0..3]
  /\ SVal \in [S3 -> 0..3]
  /\ MaxChan = 5 /\ CanClose = TRUE /\ Cancels \in SUBSET W8 /\ ProbeFirst = FALSE
W4 == {"w1", "w2", "w3", "w4"}
S2 == {"s1", "s2"}
\* quick: 4 waiters, 2 setters
ConstInitQ ==
  /\ Waiters = W4
  /\ Setters = S2
  /\ WOff \in [W4 -> 0..3]
  /\ SVal \in [S2 -> 0..3]
  /\ MaxChan = 5 /\ CanClose = TRUE /\ Cancels \in SUBSET W4 /\ ProbeFirst = FALSE

WPcs == {"start", "acquire", "probe", "release", "park", "done"}
SPcs == {"start", "store", "bcast", "renew", "done"}
CPcs == {"start", "bcast", "closebar", "done"}
HoldsW(w) == pc[w] \in {"probe", "release"}
HoldsS(s) == pc[s] \in {"store", "bcast", "renew"}
HoldsC == pc["closer"] \in {"bcast", "closebar"}
Holder(p) == IF p \in Waiters THEN HoldsW(p) ELSE IF p \in Setters THEN HoldsS(p) ELSE HoldsC

\* every Set call creates one channel: ids stay below 2 + |Setters|
MaxF == 5
TypeOK ==
  /\ next \in 0..3
  /\ fresh \in 2..MaxF
  /\ token \in (-1)..(MaxF - 1)
  /\ closedCh \in SUBSET (1..(MaxF - 1))
  /\ pc \in [Procs -> WPcs \cup SPcs \cup CPcs]
  /\ \A w \in Waiters : pc[w] \in WPcs
  /\ \A s \in Setters : pc[s] \in SPcs
  /\ pc["closer"] \in CPcs
  /\ hold \in [Procs -> 0..(MaxF - 1)]
  /\ upd \in [Waiters -> BOOLEAN]
  /\ cancelled \in SUBSET Waiters
  /\ ret \in [Waiters -> {"", "ok", "closed", "ctx"}]
  /\ why \in [Waiters -> {"", "fast", "probe", "bcast"}]

\* the channel that is current: in the barrier, or in the hands of the one holder
Aux ==
  /\ fresh <= 2 + Cardinality({s \in Setters : pc[s] = "done"})
  /\ token < fresh
  /\ \A c \in closedCh : c < fresh
  /\ \A p \in Procs : hold[p] < fresh
  \* the token is in the barrier, or with exactly one holder, or the barrier is closed
  /\ (token # 0) => \A p \in Procs : ~Holder(p)
  /\ (token = 0) => \E p \in Procs : Holder(p)
  /\ \A p, q \in Procs : (Holder(p) /\ Holder(q)) => p = q
  /\ token > 0 => token \notin closedCh
  /\ token = -1 => pc["closer"] = "done"
  /\ pc["closer"] = "done" => token = -1
  \* what a holder holds: the open current channel, until it has closed it
  /\ \A p \in Procs : Holder(p) => hold[p] > 0
  /\ \A w \in Waiters : HoldsW(w) => hold[w] \notin closedCh
  /\ \A s \in Setters : pc[s] \in {"store", "bcast"} => hold[s] \notin closedCh
  /\ \A s \in Setters : pc[s] = "renew" => hold[s] \in closedCh
  /\ pc["closer"] = "bcast" => hold["closer"] \notin closedCh
  /\ pc["closer"] = "closebar" => hold["closer"] \in closedCh
  \* every channel but the current one is closed
  /\ \A c \in 1..(MaxF - 1) : (c < fresh /\ c \notin closedCh) =>
        \/ token = c
        \/ \E p \in Procs : Holder(p) /\ hold[p] = c
  \* results exist exactly for finished calls
  /\ \A w \in Waiters : (pc[w] = "done") <=> (ret[w] # "")
  /\ \A w \in Waiters : why[w] # "" => ret[w] = "ok"
  \* a parked waiter parks on a channel that existed
  /\ \A w \in Waiters : pc[w] = "park" => hold[w] > 0
  \* the probe result is still true while the waiter holds the token, and stays true if it was positive
  /\ \A w \in Waiters : (pc[w] = "release" /\ ~upd[w]) => next <= WOff[w]
  /\ \A w \in Waiters : (pc[w] \in {"release", "park"} /\ upd[w]) => next > WOff[w]

IndInv == TypeOK /\ Aux /\ NoLostWakeup /\ Caused /\ TokenMutex
IndInit == IndInv /\ hist = <<>>
InitOK == Init => IndInv
====
