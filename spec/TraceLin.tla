------------------------------ MODULE TraceLin ------------------------------
(* C08: linearizability of recorded concurrent histories of the real klevdb.   *)
(* A history is a set of calls with invocation / return stamps (a global        *)
(* counter), arguments and results.  TLC searches an order of the calls that    *)
(* is consistent with real time (a call may be placed next iff no other pending *)
(* call returned before it was invoked) and in which every result satisfies the *)
(* property-level predicate of KlevAbs in the abstract state reached so far.    *)
(* The internal Lin(i) step is the unlogged linearization point.  Histories are *)
(* chained; "HIST-OK h" is printed when history h has been linearized, and a    *)
(* history can also be skipped, so the run always visits every history: the     *)
(* harness reports the histories for which no HIST-OK line appears.             *)
EXTENDS KlevAbs, TLC, Json, IOUtils

Hist == ndJsonDeserialize(IOEnv.TRACE)
N == Len(Hist)

VARIABLES hi, done, live, next
vars == <<hi, done, live, next>>

H == Hist[hi]
Ops == H.ops
Ids == 1..Len(Ops)
One(r) == IF r.msgs = <<>> THEN [err |-> r.err] ELSE [err |-> r.err, msg |-> r.msgs[1]]
Stamp(batch, from) == [i \in 1..Len(batch) |-> [batch[i] EXCEPT !.off = from + i - 1]]

Init == hi = 1 /\ done = {} /\ (IF N >= 1 THEN live = Hist[1].init.live /\ next = Hist[1].init.next ELSE live = <<>> /\ next = 0)

\* call i may be linearized next iff no other pending call returned before i was invoked
MayLin(i) == /\ i \in Ids \ done
             /\ \A j \in Ids \ done : j # i => Ops[j].ret > Ops[i].inv

\* the result of call o is what the abstract log returns in state (live, next)
ResultOK(o) ==
  CASE o.op = "publish" -> PublishOK(next, Len(o.batch), o)
    [] o.op = "consume" -> ConsumeOK(live, next, o.off, o.max, o)
    [] o.op = "get" -> GetOK(live, next, o.off, One(o))
    [] o.op = "getbykey" -> GetByKeyOK(live, H.keys, o.key, One(o))
    [] o.op = "consumebykey" -> ConsumeByKeyOK(live, next, H.keys, o.key, o.off, o.max, o)
    [] o.op = "getbytime" -> GetByTimeOK(live, H.times, o.t, One(o))
    [] o.op \in {"nextoffset", "sync"} -> NextOffsetOK(next, o)
    [] o.op = "gc" -> o.err = ""
    [] o.op = "stat" -> o.err = ""              \* counts are excepted by the property (a batch being appended)
    [] o.op = "delete" ->
         IF o.S = <<>> THEN o.err = "" /\ o.msgs = <<>>
         ELSE /\ Offs(o.msgs) \subseteq Range(o.S)
              /\ \A k \in 1..Len(o.msgs) : o.msgs[k] \in Range(live)
              /\ o.err # "" => (o.msgs = <<>> /\ o.err = "NotFound" /\ Min(Range(o.S)) \notin Offs(live))
    [] OTHER -> FALSE

Lin(i) ==
  /\ hi <= N /\ MayLin(i)
  /\ LET o == Ops[i] IN
     /\ (ResultOK(o)) = TRUE
     /\ IF o.op = "publish" /\ o.err = ""
        THEN next' = o.next /\ live' = live \o Stamp(o.batch, next)
        ELSE IF o.op = "delete" THEN next' = next /\ live' = Minus(live, Offs(o.msgs))
        ELSE UNCHANGED <<live, next>>
  /\ done' = done \cup {i}
  /\ UNCHANGED hi

Advance == /\ hi' = hi + 1 /\ done' = {}
           /\ IF hi + 1 <= N THEN live' = Hist[hi + 1].init.live /\ next' = Hist[hi + 1].init.next
                             ELSE live' = <<>> /\ next' = 0
NextHist == hi <= N /\ done = Ids /\ PrintT(<<"HIST-OK", H.id>>) /\ Advance
Skip == hi <= N /\ done = {} /\ Advance        \* leave a history unlinearized (reported by the harness)

Next == (\E i \in 1..64 : Lin(i)) \/ NextHist \/ Skip
Spec == Init /\ [][Next]_vars
Finished == TLCGet("stats").diameter >= 0 /\ PrintT(<<"LIN-DONE", N>>)
=============================================================================
