------------------------------- MODULE Search -------------------------------
(* C03 / C04 / C10: the five binary searches of klevdb, transcribed LITERALLY   *)
(* (same begin/end/mid updates as the Go loops in pkg/index/offset.go,          *)
(* pkg/index/times.go, pkg/segment/index.go) and compared by TLC with their     *)
(* declarative meaning for ALL arrays over a small domain and all probes.       *)
(* Arrays are 1-based sequences of offsets (strictly increasing), timestamps    *)
(* (non-decreasing) or segment bases (strictly increasing); a result is         *)
(* [err, i, j] with i, j 1-based indices (0 when absent).                       *)
EXTENDS Integers, Sequences, FiniteSets, SequencesExt, TLC

CONSTANTS MaxLen, MaxVal, MaxLenT   \* MaxLenT: length bound for the (non-decreasing) timestamp arrays

R(err, i, j) == [err |-> err, i |-> i, j |-> j]
Oldest == -2
Newest == -1

\* ---- index.Consume(items, offset) -> position of the first item >= offset, position of the last item
RECURSIVE IxConsumeLoop(_, _, _, _)
IxConsumeLoop(a, off, b, e) ==
  IF b <= e
  THEN LET mid == (b + e) \div 2 IN
       IF a[mid] < off THEN IxConsumeLoop(a, off, mid + 1, e)
       ELSE IF a[mid] > off THEN IxConsumeLoop(a, off, b, mid - 1)
       ELSE R("", mid, Len(a))
  ELSE R("", b, Len(a))
IxConsume(a, off) ==
  LET n == Len(a) IN
  IF n = 0 THEN R("Empty", 0, 0)
  ELSE IF off = Oldest THEN R("", 1, n)
  ELSE IF off = Newest THEN R("", n, n)
  ELSE IF off <= a[1] THEN R("", 1, n)
  ELSE IF off > a[n] THEN R("AfterEnd", 0, 0)
  ELSE IF off = a[n] THEN R("", n, n)
  ELSE IxConsumeLoop(a, off, 1, n)
IxConsumeSpec(a, off) ==
  LET n == Len(a) IN
  IF n = 0 THEN R("Empty", 0, 0)
  ELSE IF off = Newest THEN R("", n, n)
  ELSE IF off # Oldest /\ off > a[n] THEN R("AfterEnd", 0, 0)
  ELSE R("", CHOOSE i \in 1..n : a[i] >= off /\ \A k \in 1..(i-1) : a[k] < off, n)

\* ---- index.Get(items, offset) -> position of the item with exactly that offset
RECURSIVE IxGetLoop(_, _, _, _)
IxGetLoop(a, off, b, e) ==
  IF b <= e
  THEN LET mid == (b + e) \div 2 IN
       IF a[mid] < off THEN IxGetLoop(a, off, mid + 1, e)
       ELSE IF a[mid] > off THEN IxGetLoop(a, off, b, mid - 1)
       ELSE R("", mid, 0)
  ELSE R("NotFound", 0, 0)
IxGet(a, off) ==
  LET n == Len(a) IN
  IF n = 0 THEN R("Empty", 0, 0)
  ELSE IF off = Oldest THEN R("", 1, 0)
  ELSE IF off = Newest THEN R("", n, 0)
  ELSE IF off < a[1] THEN R("BeforeStart", 0, 0)
  ELSE IF off = a[1] THEN R("", 1, 0)
  ELSE IF off > a[n] THEN R("AfterEnd", 0, 0)
  ELSE IF off = a[n] THEN R("", n, 0)
  ELSE IxGetLoop(a, off, 1, n)
IxGetSpec(a, off) ==
  LET n == Len(a) IN
  IF n = 0 THEN R("Empty", 0, 0)
  ELSE IF off = Oldest THEN R("", 1, 0)
  ELSE IF off = Newest THEN R("", n, 0)
  ELSE IF off < a[1] THEN R("BeforeStart", 0, 0)
  ELSE IF off > a[n] THEN R("AfterEnd", 0, 0)
  ELSE IF \E i \in 1..n : a[i] = off THEN R("", CHOOSE i \in 1..n : a[i] = off, 0)
  ELSE R("NotFound", 0, 0)

\* ---- index.Time(items, ts) -> position of the first item with timestamp >= ts (sort.Search)
RECURSIVE SortSearch(_, _, _, _)
SortSearch(a, ts, lo, hi) ==       \* Go's sort.Search on [lo, hi) with 0-based indices, predicate a[i+1] >= ts
  IF lo < hi
  THEN LET h == (lo + hi) \div 2 IN
       IF ~(a[h + 1] >= ts) THEN SortSearch(a, ts, h + 1, hi) ELSE SortSearch(a, ts, lo, h)
  ELSE lo
IxTime(a, ts) ==
  LET n == Len(a) IN
  IF n = 0 THEN R("Empty", 0, 0)
  ELSE IF ts < a[1] THEN R("BeforeStart", 0, 0)
  ELSE IF ts = a[1] THEN R("", 1, 0)
  ELSE IF a[n] < ts THEN R("AfterEnd", 0, 0)
  ELSE R("", SortSearch(a, ts, 0, n) + 1, 0)
IxTimeSpec(a, ts) ==
  LET n == Len(a) IN
  IF n = 0 THEN R("Empty", 0, 0)
  ELSE IF ts < a[1] THEN R("BeforeStart", 0, 0)
  ELSE IF a[n] < ts THEN R("AfterEnd", 0, 0)
  ELSE R("", CHOOSE i \in 1..n : a[i] >= ts /\ \A k \in 1..(i-1) : a[k] < ts, 0)

\* ---- segment.Consume(segments, offset) -> index of the segment a Consume starts in
RECURSIVE SegLoop(_, _, _, _)
SegLoop(a, off, b, e) ==          \* returns <<found, b>>: the Go loop "for begin < end"
  IF b < e
  THEN LET mid == (b + e) \div 2 IN
       IF a[mid] < off THEN SegLoop(a, off, mid + 1, e)
       ELSE IF a[mid] > off THEN SegLoop(a, off, b, mid - 1)
       ELSE <<TRUE, mid>>
  ELSE <<FALSE, b>>
SegConsume(a, off) ==
  LET n == Len(a) IN
  IF off = Oldest THEN R("", 1, 0)
  ELSE IF off = Newest THEN R("", n, 0)
  ELSE IF off <= a[1] THEN R("", 1, 0)
  ELSE IF a[n] <= off THEN R("", n, 0)
  ELSE LET l == SegLoop(a, off, 1, n) IN
       IF l[1] THEN R("", l[2], 0)
       ELSE IF a[l[2]] > off THEN R("", l[2] - 1, 0) ELSE R("", l[2], 0)
SegConsumeSpec(a, off) ==
  LET n == Len(a) IN
  IF off = Oldest THEN R("", 1, 0)
  ELSE IF off = Newest THEN R("", n, 0)
  ELSE IF off <= a[1] THEN R("", 1, 0)
  ELSE R("", CHOOSE i \in 1..n : a[i] <= off /\ (i = n \/ a[i+1] > off), 0)

\* ---- segment.Get(segments, offset)
SegGet(a, off) ==
  LET n == Len(a) IN
  IF off = Oldest THEN R("", 1, 0)
  ELSE IF off = Newest THEN R("", n, 0)
  ELSE IF off < a[1] THEN (IF a[1] = 0 THEN R("Relative", 0, 0) ELSE R("BeforeStart", 0, 0))
  ELSE IF off = a[1] THEN R("", 1, 0)
  ELSE IF a[n] <= off THEN R("", n, 0)
  ELSE LET l == SegLoop(a, off, 1, n) IN
       IF l[1] THEN R("", l[2], 0)
       ELSE IF a[l[2]] > off THEN R("", l[2] - 1, 0) ELSE R("", l[2], 0)
SegGetSpec(a, off) ==
  LET n == Len(a) IN
  IF off = Oldest THEN R("", 1, 0)
  ELSE IF off = Newest THEN R("", n, 0)
  ELSE IF off < a[1] THEN (IF a[1] = 0 THEN R("Relative", 0, 0) ELSE R("BeforeStart", 0, 0))
  ELSE R("", CHOOSE i \in 1..n : a[i] <= off /\ (i = n \/ a[i+1] > off), 0)

\* ---- all arrays over the small domain
Vals == 0..MaxVal
\* strictly increasing arrays = sorted subsets; non-decreasing arrays enumerated directly
StrictInc == {SetToSortSeq(S, <) : S \in {T \in SUBSET Vals : Cardinality(T) <= MaxLen}}
Seqs == UNION {[1..n -> Vals] : n \in 0..MaxLenT}
NonDec == {a \in Seqs : \A i \in 1..(Len(a) - 1) : a[i] <= a[i+1]}
Probes == (0 - 3)..(MaxVal + 2)

AllEqual ==
  /\ \A a \in StrictInc : \A off \in Probes :
        /\ IxConsume(a, off) = IxConsumeSpec(a, off)
        /\ IxGet(a, off) = IxGetSpec(a, off)
        /\ (a # <<>> => SegConsume(a, off) = SegConsumeSpec(a, off))
        /\ (a # <<>> => SegGet(a, off) = SegGetSpec(a, off))
  /\ \A a \in NonDec : \A ts \in Probes : IxTime(a, ts) = IxTimeSpec(a, ts)

VARIABLE x
Init == x = 0
Next == x' = x
Spec == Init /\ [][Next]_x
Inv == AllEqual
=============================================================================
