----------------------------- MODULE KlevSegOps -----------------------------
(* C15 / C16, design level: the trim and compaction helpers as LITERAL          *)
(* transcriptions of their scans (trim_*.go, compact_*.go) over the             *)
(* implementation-shaped queries of KlevSeg (a scan pages through               *)
(* Consume(offset, 32), which never spans a segment; FindByAge takes its bound  *)
(* from OffsetByTime; FindByCount / FindBySize start from Stat), and the        *)
(* multi-pass delete loop (DeleteMulti) over KlevSeg's Delete.  Checked in      *)
(* every reachable state of KlevSeg, for every bound / cut-off in a range,      *)
(* against the property-level predicates of KlevAbs.                            *)
EXTENDS MCKlevSeg

Page == 32
NextOff == h.next

\* one page of a scan: the messages Consume(off, 32) returns and the offset to continue from
PageAt(off) == ImplConsume(off, Page)

\* ---- FindByOffset
RECURSIVE FindOffLoop(_, _, _, _, _)
FindOffLoop(off, maxOff, before, acc, fuel) ==
  IF fuel = 0 \/ ~(off < maxOff) THEN acc
  ELSE LET r == PageAt(off)
           take == {r.msgs[i].off : i \in {k \in 1..Len(r.msgs) : \A q \in 1..k : r.msgs[q].off < before}}
       IN IF r.err # "" THEN {-99} ELSE FindOffLoop(r.next, maxOff, before, acc \cup take, fuel - 1)
ImplFindByOffset(before) ==
  IF before = OffsetOldest THEN {}
  ELSE LET b == IF before = OffsetNewest THEN NextOff ELSE before
           mx == IF before # OffsetNewest /\ NextOff > before THEN before ELSE NextOff
       IN FindOffLoop(OffsetOldest, mx, b, {}, 3 * MaxOff + 4)

\* ---- FindByCount
RECURSIVE FindCountLoop(_, _, _, _)
FindCountLoop(off, toRemove, acc, fuel) ==
  IF fuel = 0 \/ ~(off < NextOff /\ toRemove > 0) THEN acc
  ELSE LET r == PageAt(off)
           n == IF Len(r.msgs) < toRemove THEN Len(r.msgs) ELSE toRemove
       IN IF r.err # "" THEN {-99}
          ELSE FindCountLoop(r.next, toRemove - n, acc \cup {r.msgs[i].off : i \in 1..n}, fuel - 1)
ImplFindByCount(max) ==
  IF ImplStat.messages <= max THEN {} ELSE FindCountLoop(OffsetOldest, ImplStat.messages - max, {}, 3 * MaxOff + 4)

\* ---- FindBySize
EstOf(m) == RecSize(m, h.o.newver) + ISize
RECURSIVE TakeWhileBig(_, _, _)          \* within a page: add messages until the running total drops below sz
TakeWhileBig(msgs, total, sz) ==
  IF msgs = <<>> THEN [offs |-> {}, total |-> total]
  ELSE LET t == total - EstOf(Head(msgs)) IN
       IF t < sz THEN [offs |-> {Head(msgs).off}, total |-> t]
       ELSE LET rest == TakeWhileBig(Tail(msgs), t, sz) IN [offs |-> {Head(msgs).off} \cup rest.offs, total |-> rest.total]
RECURSIVE FindSizeLoop(_, _, _, _, _)
FindSizeLoop(off, total, sz, acc, fuel) ==
  IF fuel = 0 \/ ~(off < NextOff /\ total >= sz) THEN acc
  ELSE LET r == PageAt(off) t == TakeWhileBig(r.msgs, total, sz)
       IN IF r.err # "" THEN {-99} ELSE FindSizeLoop(r.next, t.total, sz, acc \cup t.offs, fuel - 1)
ImplFindBySize(sz) == IF ImplStat.size < sz THEN {} ELSE FindSizeLoop(OffsetOldest, ImplStat.size, sz, {}, 3 * MaxOff + 4)

\* ---- FindByAge: the bound comes from OffsetByTime, the scan stops at the first message newer than `before`
RECURSIVE TakeUntilNewer(_, _)
TakeUntilNewer(msgs, before) ==          \* [offs, stop]
  IF msgs = <<>> THEN [offs |-> {}, stop |-> FALSE]
  ELSE IF Head(msgs).t > before THEN [offs |-> {}, stop |-> TRUE]
  ELSE LET rest == TakeUntilNewer(Tail(msgs), before) IN [offs |-> {Head(msgs).off} \cup rest.offs, stop |-> rest.stop]
RECURSIVE FindAgeLoop(_, _, _, _, _)
FindAgeLoop(off, maxOff, before, acc, fuel) ==
  IF fuel = 0 \/ ~(off < maxOff) THEN acc
  ELSE LET r == PageAt(off) t == TakeUntilNewer(r.msgs, before)
       IN IF r.err # "" THEN {-99}
          ELSE IF t.stop THEN acc \cup t.offs ELSE FindAgeLoop(r.next, maxOff, before, acc \cup t.offs, fuel - 1)
ImplFindByAge(before) ==
  LET bt == ImplGetByTime(before)
      mx == IF bt.err = "" THEN bt.msg.off ELSE NextOff
  IN IF bt.err \notin {"", "NoIndex", "NotFound"} THEN [err |-> bt.err, R |-> {}]
     ELSE [err |-> "", R |-> FindAgeLoop(OffsetOldest, mx, before, {}, 3 * MaxOff + 4)]

\* ---- FindUpdates / FindDeletes: one pass, a map key -> last seen offset
RECURSIVE UpdStep(_, _, _, _)
UpdStep(msgs, before, seen, acc) ==      \* [seen, acc, stop]
  IF msgs = <<>> THEN [seen |-> seen, acc |-> acc, stop |-> FALSE]
  ELSE LET m == Head(msgs) IN
       IF m.t > before THEN [seen |-> seen, acc |-> acc, stop |-> TRUE]
       ELSE UpdStep(Tail(msgs), before, [k \in (DOMAIN seen) \cup {m.key} |-> IF k = m.key THEN m.off ELSE seen[k]],
                    IF m.key \in DOMAIN seen THEN acc \cup {seen[m.key]} ELSE acc)
RECURSIVE FindUpdLoop(_, _, _, _, _)
FindUpdLoop(off, before, seen, acc, fuel) ==
  IF fuel = 0 \/ ~(off < NextOff) THEN acc
  ELSE LET r == PageAt(off) s == UpdStep(r.msgs, before, seen, acc)
       IN IF r.err # "" THEN {-99} ELSE IF s.stop THEN s.acc ELSE FindUpdLoop(r.next, before, s.seen, s.acc, fuel - 1)
ImplFindUpdates(before) == FindUpdLoop(OffsetOldest, before, <<>>, {}, 3 * MaxOff + 4)

RECURSIVE DelStep(_, _, _, _)
DelStep(msgs, before, seen, acc) ==
  IF msgs = <<>> THEN [seen |-> seen, acc |-> acc, stop |-> FALSE]
  ELSE LET m == Head(msgs) IN
       IF m.t > before THEN [seen |-> seen, acc |-> acc, stop |-> TRUE]
       ELSE IF m.key \in seen THEN DelStep(Tail(msgs), before, seen, acc)
       ELSE DelStep(Tail(msgs), before, seen \cup {m.key}, IF m.val = 0 THEN acc \cup {m.off} ELSE acc)
RECURSIVE FindDelLoop(_, _, _, _, _)
FindDelLoop(off, before, seen, acc, fuel) ==
  IF fuel = 0 \/ ~(off < NextOff) THEN acc
  ELSE LET r == PageAt(off) s == DelStep(r.msgs, before, seen, acc)
       IN IF r.err # "" THEN {-99} ELSE IF s.stop THEN s.acc ELSE FindDelLoop(r.next, before, s.seen, s.acc, fuel - 1)
ImplFindDeletes(before) == FindDelLoop(OffsetOldest, before, {}, {}, 3 * MaxOff + 4)

\* ---- DeleteMulti: repeat Delete over what remains until a pass deletes nothing (pure: threads disk and handle)
DeleteOn(d, hh, S) ==                    \* KlevSeg's DeleteResult evaluated on (d, hh)
  LET lo == Min(S) i == SegOf(d, lo) IN
  IF i = 0 THEN [err |-> "NotFound", deleted |-> <<>>, disk |-> d, h |-> hh]
  ELSE LET s == d[i] surv == Keep(s.recs, S) del == Drop(s.recs, S)
           rv == IF hh.o.keep THEN s.ver ELSE hh.o.newver
           ns == Seg(IF surv = <<>> THEN s.base ELSE surv[1].off, rv, surv, Ix(rv, DeriveTs(surv, 0)))
           isHead == i = Len(d)
           fresh == EmptySeg(hh.next, hh.o.newver)
           res(dd, h2) == [err |-> "", deleted |-> del, disk |-> dd, h |-> h2]
       IN IF del = <<>> THEN [err |-> "", deleted |-> <<>>, disk |-> d, h |-> hh]
          ELSE IF ~isHead THEN res(Splice(d, i, IF surv = <<>> THEN <<>> ELSE <<ns>>), hh)
          ELSE IF surv = <<>> THEN res(Splice(d, i, <<fresh>>), hh)
          ELSE IF LastOf(del).off = LastOf(s.recs).off THEN res(Splice(d, i, <<ns, fresh>>), hh)
          ELSE res(Splice(d, i, <<ns>>), [hh EXCEPT !.nextTime = LastOf(ns.ix.ts)])
RECURSIVE MultiLoop(_, _, _, _, _)
MultiLoop(d, hh, rem, acc, fuel) ==
  IF rem = {} \/ fuel = 0 THEN [err |-> "", deleted |-> acc, disk |-> d]
  ELSE LET r == DeleteOn(d, hh, rem) IN
       IF r.err # "" THEN [err |-> r.err, deleted |-> acc, disk |-> d]
       ELSE IF r.deleted = <<>> THEN [err |-> "", deleted |-> acc, disk |-> d]
       ELSE MultiLoop(r.disk, r.h, rem \ Offs(r.deleted), acc \cup Offs(r.deleted), fuel - 1)
DeleteMultiOn(S) == MultiLoop(disk, h, S, {}, MaxOff + 2)
FlatOf(d) == FoldLeft(LAMBDA acc, s : acc \o s.recs, <<>>, d)

\* ---- the C15 / C16 statements as invariants
Offsets == (0 - 2)..(MaxOff + 1)
Counts == 0..(MaxOff + 1)
TimesQ == (Min(TimeSet) - 1)..(Max(TimeSet) + 1)
Sizes == {0, 1, 17, 40, 60, 100, 140, 200, 300, 1000}
Mono == NonDecreasingTimes(pub)
TrimApplied(R) == LET r == DeleteMultiOn(R) IN r.err = "" /\ r.deleted = R /\ FlatOf(r.disk) = Minus(Live, R)

FindOffsetInv == IsRW => \A b \in Offsets : LET R == ImplFindByOffset(b) IN FindByOffsetOK(Live, b, R) /\ TrimApplied(R)
FindCountInv == IsRW => \A c \in Counts : LET R == ImplFindByCount(c) IN FindByCountOK(Live, c, R) /\ TrimApplied(R)
FindSizeInv == IsRW => \A sz \in Sizes : LET R == ImplFindBySize(sz) IN
                 /\ FindBySizeOK(Live, ImplStat.size, sz, EstOf, R) /\ TrimApplied(R)
FindAgeInv == IsRW => \A t \in TimesQ : LET f == ImplFindByAge(t) IN
                 IF f.err # "" THEN TimeIndex /\ Live = <<>> /\ f.err = "InvalidOffset"
                 ELSE FindByAgeOK(Live, t, f.R, Mono \/ (~TimeIndex /\ NonDecreasingTimes(Live))) /\ TrimApplied(f.R)
CompactUpdatesInv == IsRW => \A t \in TimesQ : LET D == ImplFindUpdates(t) r == DeleteMultiOn(D) IN
                 /\ D \subseteq Offs(Live) /\ r.err = "" /\ r.deleted = D
                 /\ CompactUpdatesOK(Live, t, D, FlatOf(r.disk), TRUE)
CompactDeletesInv == IsRW => \A t \in TimesQ : LET D == ImplFindDeletes(t) r == DeleteMultiOn(D) IN
                 /\ D \subseteq Offs(Live) /\ r.err = "" /\ r.deleted = D
                 /\ CompactDeletesOK(Live, t, D, FlatOf(r.disk))
=============================================================================
