------------------------------- MODULE Frames -------------------------------
(* C07 / C14: record framing of one head segment.                             *)
(*                                                                            *)
(* A log file is  valid-record^n . junk?  where junk is classified the way    *)
(* the scanner (message.Reader.Read, readV1/readV2) classifies what it meets: *)
(*   "none"       clean end of file                                           *)
(*   "shortHdr"   1..27 bytes: less than a record header                      *)
(*   "shortBody"  a header whose key/value/trailer bytes are cut short        *)
(*   "badLen"     negative or oversized length fields                         *)
(*   "badCrc"     checksum mismatch (any changed byte of a V2 record)         *)
(*   "badTrailer" trailer magic damaged with a matching checksum              *)
(* An index file is classified relative to the n valid records:               *)
(*   "absent" | "derived" (= the index computed from them) | "differs" (well  *)
(*   formed, other content: missing/extra/changed items) | "unreadable"       *)
(*   (partial item, bad header)                                               *)
(*                                                                            *)
(* Implementation-shaped operators: Scan, Recover, Check as in pkg/segment;   *)
(* property-level predicates: RecoverOK, CheckOK.                             *)
EXTENDS Integers, Sequences, FiniteSets, TLC

CONSTANTS MaxRecs

Junk == {"none", "shortHdr", "shortBody", "badLen", "badCrc", "badTrailer"}
IxClass == {"absent", "derived", "differs", "unreadable"}
File == [n : 0..MaxRecs, junk : Junk, ix : IxClass]

\* what a scan of the log reports after the n valid records: "EOF" or "Corrupted"
ScanEnd(f) == IF f.junk = "none" THEN "EOF" ELSE "Corrupted"

\* segment.Recover
Recover(f) ==
  [n |-> f.n,
   junk |-> "none",                 \* corrupted: the valid prefix is copied and renamed into place; clean: untouched
   ix |-> CASE f.ix = "absent" -> "absent"
            [] f.ix = "derived" -> "derived"
            [] f.ix = "differs" -> "derived"      \* removed and rewritten in the version it had
            [] f.ix = "unreadable" -> "absent"]   \* removed (rebuilt by the next open)
\* Recover rewrites nothing when there is nothing to repair
RecoverTouchesLog(f) == ScanEnd(f) = "Corrupted"
RecoverTouchesIndex(f) == f.ix \in {"differs", "unreadable"}

\* segment.Check: "" or an error
Check(f) == IF ScanEnd(f) = "Corrupted" THEN "Corrupted"
            ELSE IF f.ix \in {"differs", "unreadable"} THEN "Corrupted" ELSE ""

\* appending k records through a writer opened on a clean file
AppendRecs(f, k) == [f EXCEPT !.n = @ + k, !.ix = IF @ = "absent" THEN "derived" ELSE @]

\* ---- property level (C07)
Clean(f) == f.junk = "none" /\ f.ix \in {"absent", "derived"}
RecoverOK(before, after, logSame, ixSame) ==
  /\ after.n = before.n /\ after.junk = "none"          \* precisely the longest valid prefix
  /\ after.ix \in {"absent", "derived"}                \* with a matching index (or none: it is rebuilt on open)
  /\ Clean(before) => (logSame /\ ixSame)              \* byte-for-byte no-op on an undamaged segment
CheckOK(f, err) == (err = "") <=> Clean(f)

\* ---- the model: damage, recover, check, append
VARIABLES cur, recovered
vars == <<cur, recovered>>
Init == cur \in File /\ recovered = FALSE
DoRecover == /\ cur' = Recover(cur) /\ recovered' = TRUE
DoAppend == /\ Clean(cur) /\ cur.n < MaxRecs /\ cur' = AppendRecs(cur, 1) /\ UNCHANGED recovered
Next == DoRecover \/ DoAppend
Spec == Init /\ [][Next]_vars

RecoverInv == RecoverOK(cur, Recover(cur), ~RecoverTouchesLog(cur), ~RecoverTouchesIndex(cur))
CheckInv == CheckOK(cur, Check(cur))
\* after Recover, Check succeeds and keeps succeeding after further appends
AfterRecover == recovered => Check(cur) = ""
Idempotent == Recover(Recover(cur)) = Recover(cur)

\* ---- C14: a read whose answer would include a damaged record fails; the reader never returns
\* a record that the scanner classifies as junk
ReadAt(f, i) == IF i <= f.n THEN "record" ELSE IF f.junk = "none" THEN "EOF" ELSE "Corrupted"
NeverJunk == \A i \in 1..(MaxRecs + 1) : ReadAt(cur, i) = "record" => i <= cur.n
=============================================================================
