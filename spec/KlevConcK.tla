------------------------------ MODULE KlevConcK ------------------------------
(* C08, design level, second part: the multi-segment LOOKUPS under concurrent    *)
(* Publish / Delete.  KlevConc has Consume and Get, which read one or two reader  *)
(* objects; GetByKey, GetByTime and ConsumeByKey WALK the reader list (newest to  *)
(* oldest, resp. oldest to newest) under the readers' read lock, and the writing  *)
(* segment's index keeps growing under them (Publish needs no readers lock unless *)
(* it rolls over).  F02's two follow-ups and F16 lived exactly here.              *)
(*                                                                                *)
(* A fifth process K performs one lookup at a time, one action per reader object  *)
(* visited (= the code between two pause points "lookup.segment"):                *)
(*   GetByKey(k):     newest -> oldest, first segment with a message of key k     *)
(*   GetByTime(ts):   newest -> oldest with the emptyHead flag, the "first message *)
(*                    of the segment: look at the previous one too" rule and the   *)
(*                    hand-off to the NEXT segment's oldest message (a second read *)
(*                    of an object already visited: its own step)                  *)
(*   ConsumeByKey(k, off): oldest -> newest from the segment holding off; on each  *)
(*                    object the next offset is read BEFORE the key positions      *)
(*                    (fix a5c0795; NextFirst = FALSE is the order before it, F16)  *)
(*                    (OffsetNewest returns at once and is left out)               *)
(* Messages are offsets; key and time are fixed functions of the offset           *)
(* (Key(o) = o % 2; Tm(o) = (o + 1) \div 2, so equal timestamps straddle the        *)
(* segment boundaries of RollAt = 2).                                              *)
(* Linearizability of a multi-step read: K collects every abstract state the log  *)
(* went through since the call started (kseen, extended at every linearization    *)
(* point of the other processes); the result must be right in ONE of them.        *)
EXTENDS KlevConc

CONSTANTS NLook,      \* lookups per behaviour
          NextFirst,  \* TRUE: the code with fix a5c0795
          EmptyHeadGuard, \* TRUE: the code with fixes 86dfaca / 647863d (no hand-off into a head seen empty)
          GuardBroad, \* TRUE: the over-broad repair 86dfaca (no hand-off at all once a head was seen empty) = seeded change S137
          NSync,      \* Sync calls per behaviour
          SyncHoldsLock \* TRUE: Sync fsyncs under writerMu (the code); FALSE: seeded change S132 (lock released first)

VARIABLES kst, kseen,
          sst,        \* the Sync process S
          closedW     \* writer objects that have been closed (replaced by a rollover or a rewrite of the writing segment)
kvars == <<vars, kst, kseen, sst, closedW>>
kview == <<view, kst, kseen, sst, closedW>>

Key(o) == o % 2
Tm(o) == (o + 1) \div 2
NR == Len(readers)
SegAt(i) == robj[readers[i]].seg
VisAt(i) == vis[SegAt(i)]

KInit == Init /\ kst = [pc |-> "idle", n |-> NLook] /\ kseen = {} /\ sst = [pc |-> "idle", n |-> NSync] /\ closedW = {}

Others == <<file, vis, robj, readers, wr, writerMu, readersW, deleteMu, pc, loc, absLive, absNext, budget, sst, closedW>>

\* ---- property-level predicates over offsets (KlevAbs.GetByKeyOK / GetByTimeOK / ConsumeByKeyOK)
GbkOK(live, k, r) == LET c == SelectSeq(live, LAMBDA o : Key(o) = k) IN
                     IF c = <<>> THEN r.err = "NotFound" ELSE r = Ok(LastOf(c))
GbtOK(live, ts, r) == IF live = <<>> THEN r.err \in {"NotFound", "Invalid"}
                      ELSE LET c == SelectSeq(live, LAMBDA o : Tm(o) >= ts) IN
                           IF c = <<>> THEN r.err = "NotFound" ELSE r = Ok(c[1])
CbkOK(live, next, k, off, r) ==
  LET cand == SelectSeq(live, LAMBDA o : o >= off /\ Key(o) = k) IN
  /\ r.err = ""
  /\ IF r.msgs # <<>> THEN IsPrefixOf(r.msgs, cand) /\ r.next = LastOf(r.msgs) + 1
     ELSE \/ off > next
          \/ /\ r.next <= next /\ \A o \in Range(cand) : o >= r.next
             /\ (cand = <<>> => r.next = next) /\ (r.next > off \/ r.next = next)

\* ---- start / finish
KStart(op, arg, off) ==
  /\ kst.pc = "idle" /\ kst.n > 0 /\ CanR("K")
  /\ readersR' = readersR \cup {"K"}
  /\ kst' = [pc |-> op, n |-> kst.n - 1, arg |-> arg, off0 |-> off, off |-> off,
             i |-> IF op = "cbk" THEN SegIdx(off) ELSE NR, eh |-> FALSE, nx |-> -1, phase |-> 0, ms |-> <<>>]
  /\ kseen' = {<<absLive, absNext>>}
  /\ UNCHANGED Others

KFinish(ok, info) ==
  /\ Assert(ok, info)
  /\ readersR' = readersR \ {"K"}
  /\ kst' = [pc |-> "idle", n |-> kst.n]
  /\ kseen' = {}
KMove(st) == kst' = st /\ UNCHANGED <<readersR, kseen>>

\* ---- GetByKey: one reader object per step, newest to oldest
KGbk ==
  /\ kst.pc = "gbk"
  /\ LET i == kst.i
         c == SelectSeq(VisAt(i), LAMBDA o : Key(o) = kst.arg)
         fin(r) == KFinish(\E s \in kseen : GbkOK(s[1], kst.arg, r), <<"GETBYKEY-NOT-LINEARIZABLE", kst.arg, r, kseen>>)
     IN IF c # <<>> THEN fin(Ok(LastOf(c)))
        ELSE IF i = 1 THEN fin(Er("NotFound"))
        ELSE KMove([kst EXCEPT !.i = i - 1])
  /\ UNCHANGED Others

\* ---- GetByTime
\* index.Time over the timestamps of the visible items: -1 empty | -2 before start | -3 after end | position
IxT(its, ts) == IF its = <<>> THEN -1
                ELSE IF ts < Tm(its[1]) THEN -2
                ELSE IF ts = Tm(its[1]) THEN 1
                ELSE IF Tm(LastOf(its)) < ts THEN -3
                ELSE CHOOSE j \in 1..Len(its) : Tm(its[j]) >= ts /\ \A q \in 1..(j - 1) : Tm(its[q]) < ts
GbtFin(r) == KFinish(\E s \in kseen : GbtOK(s[1], kst.arg, r), <<"GETBYTIME-NOT-LINEARIZABLE", kst.arg, r, kseen>>)
KGbt ==
  /\ kst.pc = "gbt"
  /\ LET i == kst.i  its == VisAt(i)  p == IxT(its, kst.arg) IN
     CASE p = -1 -> IF i = 1 THEN GbtFin(Er("Invalid")) ELSE KMove([kst EXCEPT !.i = i - 1, !.eh = TRUE])
       [] p = -2 -> IF i = 1 THEN GbtFin(Ok(its[1])) ELSE KMove([kst EXCEPT !.i = i - 1])
       [] p = -3 -> IF i < NR /\ ~(EmptyHeadGuard /\ kst.eh /\ (GuardBroad \/ i = NR - 1))
                    THEN KMove([kst EXCEPT !.pc = "gbt_next"])      \* hand-off: the NEXT segment's oldest message
                    ELSE GbtFin(Er("NotFound"))
       [] OTHER -> IF i > 1 /\ its[p] = SegAt(i)
                   THEN KMove([kst EXCEPT !.i = i - 1])             \* first message of the segment: previous one too
                   ELSE GbtFin(Ok(its[p]))
  /\ UNCHANGED Others
\* the second look at an object already visited (the head may have been filled in between)
KGbtNext ==
  /\ kst.pc = "gbt_next"
  /\ LET its == VisAt(kst.i + 1) IN
     IF its = <<>> THEN GbtFin(Er("Invalid")) ELSE GbtFin(Ok(its[1]))
  /\ UNCHANGED Others

\* ---- ConsumeByKey: two reads per object (next offset, key positions), oldest to newest
KCbk ==
  /\ kst.pc = "cbk"
  /\ LET i == kst.i  b == SegAt(i)
         fin(r) == KFinish(\E s \in kseen : CbkOK(s[1], s[2], kst.arg, kst.off0, r),
                           <<"CONSUMEBYKEY-NOT-LINEARIZABLE", kst.arg, kst.off0, r, kseen>>)
     IN IF kst.phase = 0 /\ NextFirst
        THEN KMove([kst EXCEPT !.nx = NextOfSeg(b), !.phase = 1])
        ELSE IF kst.phase = 0          \* the order before a5c0795: key positions first ...
        THEN KMove([kst EXCEPT !.nx = -1, !.phase = 1,
                               !.ms = SelectSeq(vis[b], LAMBDA o : o >= kst.off /\ Key(o) = kst.arg)])
        ELSE LET ms == IF NextFirst THEN SelectSeq(vis[b], LAMBDA o : o >= kst.off /\ Key(o) = kst.arg) ELSE kst.ms
                 nx == IF NextFirst THEN kst.nx ELSE NextOfSeg(b)      \* ... the next offset afterwards
             IN IF ms # <<>> THEN fin([err |-> "", next |-> LastOf(ms) + 1, msgs |-> ms])
                ELSE IF i >= NR THEN fin([err |-> "", next |-> nx, msgs |-> <<>>])
                ELSE KMove([kst EXCEPT !.i = i + 1, !.off = -2, !.phase = 0])
  /\ UNCHANGED Others

\* ---- Sync: writerMu -> fsync the writer's log file -> fsync its index file -> read the next offset -> unlock.
\* The log fsync is part of the first step (there is no pause point between the lock and it); the file-system tap
\* reports each fsync, which is where the real call can be held (window "fs.fsync" of the C08 placements).
SOthers == <<file, vis, robj, readers, wr, readersW, readersR, deleteMu, pc, loc, absLive, absNext, budget, kst, kseen, closedW>>
SLock == /\ sst.pc = "idle" /\ sst.n > 0 /\ writerMu = "-"
         /\ writerMu' = IF SyncHoldsLock THEN "S" ELSE "-"
         /\ sst' = [pc |-> "s_ix", n |-> sst.n - 1, w |-> wr, nx |-> NextOfSeg(robj[wr].seg)]
         /\ UNCHANGED SOthers
SIxSync == /\ sst.pc = "s_ix"
           /\ Assert(sst.w \notin closedW, <<"SYNC-ON-CLOSED-WRITER", sst.w, closedW>>)   \* "file already closed"
           /\ sst' = [sst EXCEPT !.pc = "s_ret"]
           /\ UNCHANGED writerMu /\ UNCHANGED SOthers
SRet == /\ sst.pc = "s_ret"
        /\ Assert(SyncHoldsLock => NextOfSeg(robj[wr].seg) = absNext, <<"SYNC-OFFSET", NextOfSeg(robj[wr].seg), absNext>>)
        /\ writerMu' = IF SyncHoldsLock THEN "-" ELSE writerMu
        /\ sst' = [pc |-> "idle", n |-> sst.n]
        /\ UNCHANGED SOthers

\* ---- composition: every step of the other processes extends the set of abstract states a running lookup saw,
\* and a step that replaces the writer closes the old one
Track == /\ kseen' = IF kst.pc # "idle" THEN kseen \cup {<<absLive', absNext'>>} ELSE kseen
         /\ closedW' = IF wr' # wr THEN closedW \cup {wr} ELSE closedW
NextK ==
  \/ (Next /\ Track /\ UNCHANGED <<kst, sst>>)
  \/ (Log("S", "SLock", 0) /\ SLock) \/ (Log("S", "SIxSync", 0) /\ SIxSync) \/ (Log("S", "SRet", 0) /\ SRet)
  \/ (\E k \in 0..1 : Log("K", "KStartGbk", k) /\ KStart("gbk", k, 0))
  \/ (\E t \in 0..(Tm(MaxOff) + 1) : Log("K", "KStartGbt", t) /\ KStart("gbt", t, 0))
  \/ (\E k \in 0..1 : \E off \in {-2} \cup 0..MaxOff : Log("K", "KStartCbk", k * 100 + off + 2) /\ KStart("cbk", k, off))
  \/ (Log("K", "KGbk", 0) /\ KGbk) \/ (Log("K", "KGbt", 0) /\ KGbt) \/ (Log("K", "KGbtNext", 0) /\ KGbtNext)
  \/ (Log("K", "KCbk", 0) /\ KCbk)
SpecK == KInit /\ [][NextK]_kvars

=============================================================================
