SPECIFICATION Spec
CONSTANTS
  HashOf <- mcHash
  KLenOf <- mcKLen
  KeySet <- mcKeys3
  TimeSet = {1, 2}
  VLens = {0, 4}
  MaxOff = 4
  MaxBatch = 2
  MaxSets = 2
  Rollovers = {60, 1000}
  Versions = {2}
  KeyIndex = FALSE
  TimeIndex = FALSE
  OptKeep <- FF
  OptEager <- FF
  OptCheck <- FF
  OptRecover <- FF
  AllowRO = FALSE
  AllowRmIndex = FALSE
  AllowMigrate = FALSE
VIEW view
INVARIANTS Fidelity CompactUpdatesInv CompactDeletesInv
CHECK_DEADLOCK FALSE
