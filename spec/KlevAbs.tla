------------------------------ MODULE KlevAbs ------------------------------
(* Property-level semantics of klevdb: one result predicate per API call,    *)
(* exactly as permissive as the property statements C01..C20.                *)
(*                                                                           *)
(* A message is a record [off, key, val, t, klen, vlen]:                     *)
(*   key, val  - ids given by an injective renaming of the byte strings      *)
(*               (val = 0: no value / nil / empty; unknown bytes map to -1)  *)
(*   t         - time in microseconds;  klen, vlen - byte lengths            *)
(* live  - sequence of messages, strictly increasing offsets                 *)
(* next  - the next offset to assign                                         *)
(* A result r is a record; r.err \in {"", "InvalidOffset", "NotFound",       *)
(*   "NoIndex", "Readonly", "Closed", "Ctx", "Panic", "Other"}               *)
EXTENDS Integers, Sequences, FiniteSets, SequencesExt, FiniteSetsExt

OffsetOldest == -2
OffsetNewest == -1

Offs(s) == {s[i].off : i \in 1..Len(s)}
LastOf(s) == s[Len(s)]
From(s, off) == SelectSeq(s, LAMBDA m : m.off >= off)
WithKey(s, k) == SelectSeq(s, LAMBDA m : m.key = k)
Minus(s, D) == SelectSeq(s, LAMBDA m : m.off \notin D)
PrefixOf(a, b) == Len(a) <= Len(b) /\ SubSeq(b, 1, Len(a)) = a
StrictlyIncreasing(s) == \A i \in 1..(Len(s) - 1) : s[i].off < s[i+1].off
NonDecreasingTimes(s) == \A i \in 1..(Len(s) - 1) : s[i].t <= s[i+1].t
SumOver(s, F(_)) == FoldLeft(LAMBDA acc, m : acc + F(m), 0, s)

\* ---- sizes (C13): the documented layout
RecFixed(ver) == IF ver = 2 THEN 36 ELSE 28
LogHeader(ver) == IF ver = 2 THEN 8 ELSE 0
ItemSize(par) == 16 + (IF par.times THEN 8 ELSE 0) + (IF par.keys THEN 8 ELSE 0)
RecSize(m, ver) == RecFixed(ver) + m.klen + m.vlen
SizeOK(m, newVer, par, r) == r = RecSize(m, newVer) + ItemSize(par)

\* ---- C01: a full scan shows exactly the live sequence
ScanOK(live, scan) == scan = live

\* ---- C02: dense, increasing, never reused
PublishOK(next, n, r) ==
  /\ r.err = ""
  /\ r.next = next + n
  /\ r.assigned = [i \in 1..n |-> next + i - 1]      \* offsets written back into the caller's slice
NextOffsetOK(next, r) == r.err = "" /\ r.next = next
\* history condition kept by the trace spec: ever[off] = val for every message ever observed at off

\* ---- C03: Consume
\* cursor result with no messages: never steps over a live message, makes progress, ends at next
EmptyCursorOK(cand, next, off, rnext) ==
  /\ rnext <= next
  /\ \A i \in 1..Len(cand) : cand[i].off >= rnext
  /\ (cand = <<>> => rnext = next)
  /\ (rnext > off \/ rnext = next)

ConsumeOK(live, next, off, max, r) ==
  IF off = OffsetNewest THEN r.err = "" /\ r.next = next /\ r.msgs = <<>>
  ELSE IF off > next THEN r.err = "InvalidOffset"
  ELSE LET cand == From(live, off) IN
       /\ r.err = ""
       /\ IF r.msgs # <<>>
          THEN PrefixOf(r.msgs, cand) /\ Len(r.msgs) <= max /\ r.next = LastOf(r.msgs).off + 1
          ELSE EmptyCursorOK(cand, next, off, r.next)

\* ---- C04: Get
GetOK(live, next, off, r) ==
  CASE off = OffsetOldest -> IF live = <<>> THEN r.err = "InvalidOffset" ELSE r.err = "" /\ r.msg = live[1]
    [] off = OffsetNewest -> IF live = <<>> THEN r.err = "InvalidOffset" ELSE r.err = "" /\ r.msg = LastOf(live)
    [] off >= 0 -> IF off \in Offs(live)
                   THEN r.err = "" /\ r.msg = (CHOOSE m \in Range(live) : m.off = off)
                   ELSE IF off < next THEN r.err = "NotFound" ELSE r.err = "InvalidOffset"
    [] OTHER -> TRUE     \* other negative offsets are outside the property

\* ---- C09: key lookups
GetByKeyOK(live, hasKeys, k, r) ==
  IF ~hasKeys THEN r.err = "NoIndex"
  ELSE IF WithKey(live, k) = <<>> THEN r.err = "NotFound"
  ELSE r.err = "" /\ r.msg = LastOf(WithKey(live, k))

ConsumeByKeyOK(live, next, hasKeys, k, off, max, r) ==
  IF ~hasKeys THEN r.err = "NoIndex"
  ELSE IF off = OffsetNewest THEN r.err = "" /\ r.next = next /\ r.msgs = <<>>
  ELSE IF off > next                \* beyond next: C09 neither demands nor forbids an error
       THEN r.err = "InvalidOffset" \/ (r.err = "" /\ r.msgs = <<>>)
  ELSE LET cand == From(WithKey(live, k), off) IN
       /\ r.err = ""
       /\ IF r.msgs # <<>>
          THEN PrefixOf(r.msgs, cand) /\ Len(r.msgs) <= max /\ r.next = LastOf(r.msgs).off + 1
          ELSE EmptyCursorOK(cand, next, off, r.next)
OffsetByKeyOK(live, hasKeys, k, r) ==
  IF ~hasKeys THEN r.err = "NoIndex"
  ELSE IF WithKey(live, k) = <<>> THEN r.err = "NotFound"
  ELSE r.err = "" /\ r.off = LastOf(WithKey(live, k)).off

\* ---- C10: time lookups (premise: NonDecreasingTimes(live))
GetByTimeOK(live, hasTimes, t, r) ==
  IF ~hasTimes THEN r.err = "NoIndex"
  ELSE IF live = <<>> THEN r.err \in {"NotFound", "InvalidOffset"}
  ELSE LET cand == SelectSeq(live, LAMBDA m : m.t >= t) IN
       IF cand = <<>> THEN r.err = "NotFound" ELSE r.err = "" /\ r.msg = cand[1]

OffsetByTimeOK(live, hasTimes, t, r) ==
  IF ~hasTimes THEN r.err = "NoIndex"
  ELSE IF live = <<>> THEN r.err \in {"NotFound", "InvalidOffset"}
  ELSE LET cand == SelectSeq(live, LAMBDA m : m.t >= t) IN
       IF cand = <<>> THEN r.err = "NotFound" ELSE r.err = "" /\ r.off = cand[1].off /\ r.mt = cand[1].t

\* ---- C12: Delete.  segver[off] = format version of the file holding off (for the size)
DeletedCoreOK(live, segver, par, S, r) ==
  LET D == Offs(r.deleted) IN
  /\ D \subseteq S /\ Cardinality(D) = Len(r.deleted)
  /\ \A i \in 1..Len(r.deleted) : r.deleted[i] \in Range(live)        \* live, full original content
  /\ r.size = SumOver(r.deleted, LAMBDA m : RecSize(m, segver[m.off]) + ItemSize(par))
DeleteOK(live, segver, par, S, r) ==
  IF S = {} THEN r.err = "" /\ r.deleted = <<>> /\ r.size = 0
  ELSE IF \E o \in S : o < 0 THEN r.err = "InvalidOffset" /\ r.deleted = <<>>
  ELSE /\ DeletedCoreOK(live, segver, par, S, r)
       /\ StrictlyIncreasing(r.deleted)
       /\ r.err # "" => /\ r.deleted = <<>>
                        /\ r.err = "NotFound" /\ Min(S) \notin Offs(live)  \* e.g. below the oldest segment
DeleteEffect(live, r) == Minus(live, Offs(r.deleted))
\* DeleteMulti repeats Delete until a pass deletes nothing; it may stop with NotFound (and what it deleted so far)
\* when a remaining requested offset is not live; over a set of live offsets it removes all of them
DeleteMultiOK(live, segver, par, S, r) ==
  IF S = {} THEN r.err = "" /\ r.deleted = <<>> /\ r.size = 0
  ELSE IF \E o \in S : o < 0 THEN r.err = "InvalidOffset" /\ r.deleted = <<>>
  \* "Stopped": the caller's backoff returned an error (only the harness's own backoff does): what was deleted until
  \* then is reported - DeletedCoreOK, and the scans that follow see exactly those messages gone
  ELSE /\ DeletedCoreOK(live, segver, par, S, r)
       /\ r.err \notin {"", "Stopped"} => (r.err = "NotFound" /\ ~(S \subseteq Offs(live)))
       /\ (S \subseteq Offs(live) /\ r.err # "Stopped") => (r.err = "" /\ Offs(r.deleted) = S)

\* ---- C13: Stat
StatOK(live, fsSegments, fsBytes, r) ==
  r.err = "" /\ r.messages = Len(live) /\ r.segments = fsSegments /\ r.size = fsBytes

\* ---- C15: trim helpers. R = the set returned by FindBy*, a prefix of the live sequence
IsLivePrefix(live, R) == \E n \in 0..Len(live) : R = Offs(SubSeq(live, 1, n))
FindByOffsetOK(live, before, R) ==
  R = (CASE before = OffsetOldest -> {}
         [] before = OffsetNewest -> Offs(live)
         [] OTHER -> {o \in Offs(live) : o < before})
FindByCountOK(live, max, R) ==
  LET n == IF Len(live) > max THEN Len(live) - max ELSE 0 IN R = Offs(SubSeq(live, 1, n))
\* statSize = Stat().Size before the call, est(m) = Log.Size(m)
FindBySizeOK(live, statSize, sz, est(_), R) ==
  IF statSize < sz THEN R = {}
  ELSE \E n \in 0..Len(live) :
         /\ R = Offs(SubSeq(live, 1, n))
         /\ (n < Len(live) => statSize - SumOver(SubSeq(live, 1, n), est) < sz)      \* enough ...
         /\ (n > 0 => statSize - SumOver(SubSeq(live, 1, n - 1), est) >= sz)          \* ... and not more
\* mono: message times never decreased with offset (with a time index: over everything ever published,
\* because index timestamps are carried forward; without one: over the live messages)
FindByAgeOK(live, before, R, mono) ==
  /\ IsLivePrefix(live, R)
  /\ \A m \in Range(live) : m.off \in R => m.t <= before                 \* nothing newer removed
  /\ mono => \A m \in Range(live) : m.t < before => m.off \in R            \* nothing older left
\* after the corresponding Trim..Multi call (r as for DeleteMulti): exactly R is gone
TrimOK(live, R, r, liveAfter) ==
  /\ r.err = "" /\ Offs(r.deleted) = R /\ liveAfter = Minus(live, R)
TrimBySizeBoundOK(liveAfter, statSizeAfter, sz) == statSizeAfter < sz \/ liveAfter = <<>>

\* ---- C16: compaction
Keys(s) == {s[i].key : i \in 1..Len(s)}
Latest(s) == [k \in Keys(s) |-> LastOf(WithKey(s, k)).val]
SameLatest(a, b) ==          \* val = 0 (no value) means "absent", like no message at all
  \A k \in Keys(a) \cup Keys(b) :
     (IF k \in Keys(a) THEN Latest(a)[k] ELSE 0) = (IF k \in Keys(b) THEN Latest(b)[k] ELSE 0)
HasLater(live, m) == \E x \in Range(live) : x.key = m.key /\ x.off > m.off
IsOldestOfKey(live, m) == \A x \in Range(live) : x.key = m.key => x.off >= m.off
\* complete = the multi-pass variant (every segment processed); the single-pass variant stops after one segment
CompactUpdatesOK(live, cutoff, D, liveAfter, complete) ==
  /\ liveAfter = Minus(live, D) /\ SameLatest(live, liveAfter)
  /\ \A m \in Range(live) : m.off \in D => m.t <= cutoff /\ HasLater(live, m)
  /\ (complete /\ NonDecreasingTimes(live)) =>
       \A k \in Keys(liveAfter) : Cardinality({m \in Range(liveAfter) : m.key = k /\ m.t <= cutoff}) <= 1
CompactDeletesOK(live, cutoff, D, liveAfter) ==
  /\ liveAfter = Minus(live, D) /\ SameLatest(live, liveAfter)
  /\ \A m \in Range(live) : m.off \in D => m.t <= cutoff /\ m.val = 0 /\ IsOldestOfKey(live, m)

\* ---- C17: versions. segs = projected list of [ver, offs] per file, before / after
MigrateOK(live, next, liveAfter, nextAfter, segsAfter, target) ==
  liveAfter = live /\ nextAfter = next /\ \A i \in 1..Len(segsAfter) : segsAfter[i].ver = target
RewriteVersionOK(segverBefore, segverAfter, sameFileAsDeleted, keep, newVer) ==
  \A o \in DOMAIN segverAfter :
     segverAfter[o] = IF o \in sameFileAsDeleted THEN (IF keep THEN segverBefore[o] ELSE newVer)
                      ELSE segverBefore[o]

\* ---- C16: klevdb.Compact = CompactUpdates(cutoff) ; CompactDeletes(cutoff2) ; GC.  D = everything removed
CompactBothOK(live, cutoff, cutoff2, D, liveAfter) ==
  /\ liveAfter = Minus(live, D) /\ SameLatest(live, liveAfter)
  /\ \A m \in Range(live) : m.off \in D =>
        \/ m.t <= cutoff /\ HasLater(live, m)
        \/ /\ m.t <= cutoff2 /\ m.val = 0
           /\ \A x \in Range(live) : (x.key = m.key /\ x.off < m.off) => x.off \in D

\* ---- projection of a directory by the reference codec (C01, C02, C11, C13)
\* segs[i] = [base, ver, offs, parsed, exact, firstisbase, backtoback, ixpresent, ixbase, ixts, stale]
SegLast(s) == s.offs[Len(s.offs)]
LayoutOK(live, next, cfg, segs, stale) ==
  /\ stale = 0                                            \* no temp files left behind at a quiescent point
  /\ \A i \in 1..Len(segs) :
        /\ segs[i].parsed /\ segs[i].exact /\ segs[i].backtoback
        /\ segs[i].offs # <<>> => segs[i].firstisbase
        /\ segs[i].ixpresent => (segs[i].ixbase /\ (cfg.mono => segs[i].ixts) /\ segs[i].ixrun)   \* ixrun: timestamps = running maximum of the message times
        /\ i < Len(segs) => /\ segs[i].offs # <<>>
                            /\ segs[i].base < segs[i+1].base
                            /\ SegLast(segs[i]) < segs[i+1].base
  /\ FoldLeft(LAMBDA acc, s : acc \o s.offs, <<>>, segs) = [i \in 1..Len(live) |-> live[i].off]
  /\ segs # <<>> => LET hd == segs[Len(segs)] IN
                       next = IF hd.offs = <<>> THEN hd.base ELSE SegLast(hd) + 1

\* ---- C17: per-file format versions before/after an operation.  lay = sequence of [base, ver, offs]
SegWith(lay, o) == CHOOSE i \in 1..Len(lay) : o \in Range(lay[i].offs)
HasOff(lay, o) == \E i \in 1..Len(lay) : o \in Range(lay[i].offs)
HasBase(lay, b) == \E i \in 1..Len(lay) : lay[i].base = b
SegAt(lay, b) == lay[CHOOSE i \in 1..Len(lay) : lay[i].base = b]
VersionsOK(before, after, op, newver, keep, eager, target) ==
  \A i \in 1..Len(after) : LET a == after[i] IN
    CASE op = "migrate" -> a.ver = target
      [] op = "open" ->
           IF eager THEN a.ver = newver
           ELSE IF ~HasBase(before, a.base) THEN a.ver = newver          \* brand-new log
           ELSE LET b == SegAt(before, a.base) IN
                IF b.offs = <<>> /\ b.ver = 1 /\ i = Len(after)          \* empty header-less head gets a header
                THEN a.ver \in {1, newver} ELSE a.ver = b.ver
      [] op = "publish" ->
           IF HasBase(before, a.base) THEN a.ver = SegAt(before, a.base).ver ELSE a.ver = newver
      [] op = "delete" ->
           IF a.offs = <<>>
           THEN IF HasBase(before, a.base) /\ SegAt(before, a.base).offs = <<>>
                THEN a.ver = SegAt(before, a.base).ver ELSE a.ver = newver   \* fresh empty head
           ELSE LET b == before[SegWith(before, a.offs[1])] IN
                IF b.offs = a.offs THEN a.ver = b.ver
                ELSE a.ver = IF keep THEN b.ver ELSE newver
      [] OTHER -> TRUE

\* ---- C19: open modes. modes = multiset of currently open handles' modes as a set of [id, mode]
OpenOK(open, mode, wouldFailAnyway, r) ==
  LET writers == {x \in open : x.mode = "rw"} IN
  IF mode = "rw" THEN (r.err = "") <=> (open = {} /\ ~wouldFailAnyway)
  ELSE (r.err = "") <=> (writers = {} /\ ~wouldFailAnyway)
ReadonlyRejectOK(r) == r.err = "Readonly"

\* ---- C05 / C06: what a directory shows after a crash / power loss and Open with Recover.
\* S = abstract state [live, next] acknowledged before the call in flight, op = that call ([kind, batch]; batch = the
\* messages being published, stamped), T = the state the completed call reached, obs = what the recovered log shows:
\* [err, live, next, gets, keys, times, statMessages, hash1, hash2, appendErr, appended, checkAfter]
OneOf(r) == IF r.msgs = <<>> THEN [err |-> r.err] ELSE [err |-> r.err, msg |-> r.msgs[1]]
ViewsAgree(obs, hasKeys, hasTimes, mono) ==
  /\ StrictlyIncreasing(obs.live)
  /\ \A i \in 1..Len(obs.live) : obs.live[i].off < obs.next
  /\ \A i \in 1..Len(obs.gets) : GetOK(obs.live, obs.next, obs.gets[i].off, OneOf(obs.gets[i]))
  /\ \A i \in 1..Len(obs.keys) : GetByKeyOK(obs.live, hasKeys, obs.keys[i].key, OneOf(obs.keys[i]))
  /\ mono => \A i \in 1..Len(obs.times) : GetByTimeOK(obs.live, hasTimes, obs.times[i].t, OneOf(obs.times[i]))
  /\ obs.statMessages = Len(obs.live)
RecoveredOK(obs, hasKeys, hasTimes, mono) ==
  /\ obs.err = ""                                   \* Open with Recover succeeds
  /\ ViewsAgree(obs, hasKeys, hasTimes, mono)       \* all views agree
  /\ obs.hash1 = obs.hash2                          \* recovering again changes nothing
  /\ obs.appendErr = "" /\ obs.checkAfter = ""      \* can be appended to and still passes Check
  /\ obs.appended = obs.live \o <<[obs.newmsg EXCEPT !.off = obs.next]>>
  \* ... and used further: a Delete, close, open with Recover - exactly the reported messages are gone
  /\ obs.delErr = ""
  /\ Range(obs.deleted) \subseteq Range(obs.delset)
  /\ obs.afterDelete = Minus(obs.appended, Range(obs.deleted))
CrashRecoverOK(S, op, T, obs, hasKeys, hasTimes, mono) ==
  /\ RecoveredOK(obs, hasKeys, hasTimes, mono)
  /\ obs.next >= S.next                             \* NextOffset has not moved backwards
  /\ obs.next <= (IF T.next > S.next THEN T.next ELSE S.next)
  /\ CASE op.kind = "publish" ->                    \* everything acknowledged, possibly followed by a prefix of the batch
            \E j \in 0..Len(op.batch) : obs.live = S.live \o SubSeq(op.batch, 1, j) /\ obs.next >= S.next + j
       [] op.kind = "delete" -> obs.live = S.live \/ obs.live = T.live     \* all or nothing
       [] OTHER -> obs.live = S.live
\* power loss (C06): w = the offset acknowledged durable (Sync / AutoSync Publish / Close) before the call in flight
PowerLossOK(S, op, T, w, obs, hasKeys, hasTimes, mono) ==
  /\ RecoveredOK(obs, hasKeys, hasTimes, mono)
  /\ obs.next >= w
  /\ \E base \in {S.live, T.live} :
        /\ PrefixOf(obs.live, base)                                      \* survivors form a prefix of what was written
        /\ \A i \in 1..Len(base) : base[i].off < w => base[i] \in Range(obs.live)   \* nothing below w is lost

\* ---- C14: reads of a damaged V2 log. expected = answer of the undamaged log,
\* touches = offsets whose records the answer is read from, damaged = overwritten/cut offsets
DamagedReadOK(expected, touchesDamaged, otherFileOnly, r) ==
  /\ r.err # "Panic"
  /\ touchesDamaged => r.err # ""
  /\ otherFileOnly => r = expected
  /\ r.err = "" => r = expected           \* never a message that differs in any field
AllocOK(bytesAllocated, fileBytes) == bytesAllocated <= 4 * fileBytes + 1048576

\* ---- C20: backup
BackupOK(srcObs, srcObsAfter, dstObs, dstCheck) ==
  srcObsAfter = srcObs /\ dstObs = srcObs /\ dstCheck = ""
=============================================================================
