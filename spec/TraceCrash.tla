----------------------------- MODULE TraceCrash -----------------------------
(* Trace validation for C05 (process crash at every file-system step, torn     *)
(* appends, crashes inside the recovery) and C06 (power loss: unsynced file    *)
(* tails lost). One event per crash / power-loss image: the abstract states    *)
(* around the call in flight and what the real klevdb shows after Open with    *)
(* Recover on that image.                                                      *)
EXTENDS KlevAbs, TLC, Json, IOUtils

Trace == ndJsonDeserialize(IOEnv.TRACE)
VARIABLE l
e == Trace[l]
Step == l <= Len(Trace) /\ l' = l + 1
OpenKF == IF Len(Trace) > 0 /\ Trace[1].ev = "config" THEN Range(Trace[1].kf) ELSE {}

\* KF-C05-1 (open known finding): a crash between "rename the rewritten segment to its new starting offset" and
\* "remove the old segment" of a Delete that rebases a segment leaves both on disk (overlapping offsets)
KFRebase == "KF-C05-1" \in OpenKF /\ e.op.kind = "delete" /\ e.between = "rebase-rename..remove"

Config == Step /\ e.ev = "config"
Reset == Step /\ e.ev = "reset"
Crash == /\ Step /\ e.ev = "crash"
         /\ IF CrashRecoverOK(e.S, e.op, e.T, e.obs, e.keys, e.times, e.mono) THEN TRUE
            ELSE KFRebase /\ PrintT(<<"KF-HIT", {"KF-C05-1"}, l>>)
PLoss == /\ Step /\ e.ev = "ploss"
         /\ IF PowerLossOK(e.S, e.op, e.T, e.w, e.obs, e.keys, e.times, e.mono) THEN TRUE
            ELSE KFRebase /\ PrintT(<<"KF-HIT", {"KF-C05-1"}, l>>)

Next == Config \/ Reset \/ Crash \/ PLoss
Spec == l = 1 /\ [][Next]_l
Accepted == /\ PrintT(<<"TRACE-DEPTH", TLCGet("stats").diameter - 1, Len(Trace)>>)
            /\ TLCGet("stats").diameter - 1 = Len(Trace)
=============================================================================
