SPECIFICATION TSpec
CONSTANTS
  MaxLen = 0
  MaxVal = 0
  MaxLenT = 0
POSTCONDITION Accepted
CHECK_DEADLOCK FALSE
