---- MODULE ConcKGen ----
EXTENDS KlevConcK, Json
EmitK == PrintT("CASE " \o ToJson([hist |-> hist]))
====
