---- MODULE MCNotify ----
EXTENDS Notify
mcWaiters == {"w1","w2","w3"}
mcSetters == {"s1","s2"}
mcWOff == [w \in mcWaiters |-> CASE w = "w1" -> 0 [] w = "w2" -> 1 [] OTHER -> 2]
mcSVal == [s \in mcSetters |-> IF s = "s1" THEN 1 ELSE 2]
mcCancels == {"w3"}
====
