------------------------------ MODULE KlevFSDur ------------------------------
(* C06, design level: KlevFS extended with DURABLE LENGTHS.  dur[name] is the   *)
(* number of data items of a file known to be on stable storage (-1: not even   *)
(* the header); it is a fold of the executed plans: fsync sets it to the        *)
(* current length, create resets it, rename carries it, remove drops it.  A     *)
(* power loss at any point of any plan leaves every file cut back to a length   *)
(* between its durable and its written length (8-byte headers atomic, directory *)
(* operations durable in program order).  PowerLoss1 demands, functionally for  *)
(* every enabled operation x plan prefix x cut, that Open with Recover shows a  *)
(* prefix of what was written containing everything below the acknowledged      *)
(* offset (Sync / AutoSync Publish / Close), with NextOffset not below it.       *)
EXTENDS KlevFS

CONSTANT RecoverFsync   \* TRUE: Recover fsyncs its copy before the rename (the code); FALSE: seeded change S131

VARIABLES dur, acked
dvars == <<vars, dur, acked>>

DurGet(u, n) == IF n \in DOMAIN u THEN u[n] ELSE -1
DurPut(u, n, v) == [x \in (DOMAIN u) \cup {n} |-> IF x = n THEN v ELSE u[x]]
DurDel(u, n) == [x \in (DOMAIN u) \ {n} |-> u[x]]

\* one primitive: d is the directory BEFORE the primitive
DurStep(u, d, p) ==
  CASE p.p = "create" -> IF Exists(d, p.n) THEN u ELSE DurPut(u, p.n, -1)
    [] p.p = "fsync" -> IF Exists(d, p.n) THEN DurPut(u, p.n, Len(d[p.n].data)) ELSE u
    [] p.p = "rename" -> DurPut(DurDel(u, p.n), p.m, DurGet(u, p.n))
    [] p.p = "remove" -> DurDel(u, p.n)
    [] OTHER -> u
RECURSIVE DurAll(_, _, _)
DurAll(u, d, plan) == IF plan = <<>> THEN u ELSE DurAll(DurStep(u, d, Head(plan)), Apply(d, Head(plan)), Tail(plan))

\* a file cut back to l data items (l = -1: the header is lost as well)
CutFile(f, l) == IF l < 0 THEN [hdr |-> FALSE, data |-> <<>>, torn |-> "", ver |-> f.ver]
                 ELSE [hdr |-> f.hdr, data |-> SubSeq(f.data, 1, l), torn |-> "", ver |-> f.ver]
CutTo(d, cuts) == [n \in DOMAIN d |-> IF n \in DOMAIN cuts THEN CutFile(d[n], cuts[n]) ELSE d[n]]
AtDur(d, u) == [n \in DOMAIN d |-> IF DurGet(u, n) < Len(d[n].data) THEN DurGet(u, n) ELSE Len(d[n].data)]
\* the family of cuts: everything unsynced lost; one file at every admissible length with the others complete
\* or at their durable length
Cuts(d, u) ==
  {AtDur(d, u)} \cup
  UNION {{[x \in {n} |-> l], [x \in DOMAIN d |-> IF x = n THEN l ELSE AtDur(d, u)[x]]} :
           <<n, l>> \in {<<n, l>> \in (DOMAIN d) \X (-1..MaxOff) : l >= DurGet(u, n) /\ l <= Len(d[n].data)}}

PLossOK(r, bases, w) ==
  /\ ViewsAgree(r)
  /\ NextOf(r) >= w
  /\ \E base \in bases :
        /\ IsPrefixOf(Scan(r), base)
        /\ \A i \in 1..Len(base) : base[i] < w => \E k \in 1..Len(Scan(r)) : Scan(r)[k] = base[i]

PowerLossSafe(plan, bases, w) ==
  \A k \in 0..Len(plan) :
    LET pre == SubSeq(plan, 1, k)
        dk == ApplyAll(dir, pre)
        uk == DurAll(dur, dir, pre)
    IN \A cuts \in Cuts(dk, uk) :
         LET img == CutTo(dk, cuts) r == RecoverDir(img) IN
         \/ PLossOK(r, bases, w)
         \/ (KnownRebase /\ Overlap(img))
         \/ PrintT(<<"PLOSS-VIOLATION", plan, k, cuts, img, r, Scan(r), NextOf(r), w>>) /\ FALSE

\* ---- a SECOND power loss, inside or right after the recovery from the first one (seeded change S131): the files of
\* the first image are what survived, so they are durable; what the recovery writes is durable only once fsynced.
\* The first cut may end inside a record (a torn fragment), which is what makes Recover install its copy.
TornCutTo(d, cuts) == [n \in DOMAIN d |->
                         IF n \in DOMAIN cuts /\ cuts[n] >= 0 /\ cuts[n] < Len(d[n].data)
                         THEN [CutFile(d[n], cuts[n]) EXCEPT !.torn = "b"]
                         ELSE IF n \in DOMAIN cuts THEN CutFile(d[n], cuts[n]) ELSE d[n]]
FullDur(d) == [n \in DOMAIN d |-> Len(d[n].data)]
IsRc(n) == \E b \in 0..MaxOff : n = RcLog(b)
RcPlan(d) == IF RecoverFsync THEN PlanOpenRecover(d)
             ELSE SelectSeq(PlanOpenRecover(d), LAMBDA p : ~(p.p = "fsync" /\ IsRc(p.n)))
SecondLossSafe(img, bases, w) ==
  LET plan == RcPlan(img) IN
  \A k \in 0..Len(plan) :
    LET pre == SubSeq(plan, 1, k)
        dk == ApplyAll(img, pre)
        uk == DurAll(FullDur(img), img, pre)
        img2 == CutTo(dk, AtDur(dk, uk))
        r == RecoverDir(img2)
    IN \/ PLossOK(r, bases, w)
       \/ (KnownRebase /\ Overlap(img2))
       \/ PrintT(<<"PLOSS2-VIOLATION", img, plan, k, img2, Scan(r), NextOf(r), w>>) /\ FALSE
\* at rest, for every first cut (whole items and torn)
PowerLoss2 == \A cuts \in Cuts(dir, dur) :
                 /\ SecondLossSafe(CutTo(dir, cuts), {live}, acked)
                 /\ SecondLossSafe(TornCutTo(dir, cuts), {live}, acked)

PlanSync(d) == LET b == HeadBase(d) IN <<Fsync(LogN(b)), Fsync(IdxN(b))>>

-----------------------------------------------------------------------------
DInit == Init /\ dur = [n \in DOMAIN dir |-> -1] /\ acked = 0

DPublish(n) == /\ Publish(n)
               /\ dur' = DurAll(dur, dir, PlanPublish(dir, h.next, n))
               /\ acked' = IF AutoSync THEN nxt + n ELSE acked
DDelete(S) == /\ Delete(S)
              /\ dur' = DurAll(dur, dir, PlanDelete(dir, h.next, S))
              /\ UNCHANGED acked
DSync == /\ h.open
         /\ dur' = DurAll(dur, dir, PlanSync(dir))
         /\ acked' = nxt
         /\ UNCHANGED vars
\* Close (syncs the head) followed by Open with Recover
DReopen == /\ h.open
           /\ LET u1 == DurAll(dur, dir, PlanSync(dir)) IN
              /\ dir' = RecoverDir(dir)
              /\ dur' = DurAll(u1, dir, PlanOpenRecover(dir))
           /\ acked' = nxt
           /\ UNCHANGED <<h, live, nxt>>
DNext == (\E n \in 0..2 : DPublish(n)) \/ (\E S \in DelSets : DDelete(S)) \/ DSync \/ DReopen
DSpec == DInit /\ [][DNext]_dvars

\* C06, functionally, for every enabled operation of every reachable state
PowerLoss1 ==
  /\ \A n \in 0..2 : (h.next + n <= MaxOff) =>
        PowerLossSafe(PlanPublish(dir, h.next, n), {live \o [i \in 1..n |-> h.next + i - 1]}, acked)
  /\ \A S \in DelSets :
        LET b == SegOf(dir, Min(S))
            D == IF b = -1 THEN {} ELSE {o \in S : \E k \in 1..Len(LogData(dir, b)) : LogData(dir, b)[k] = o}
        IN PowerLossSafe(PlanDelete(dir, h.next, S), {live, SelectSeq(live, LAMBDA o : o \notin D)}, acked)
  /\ PowerLossSafe(PlanSync(dir), {live}, acked)
\* and at rest: whatever is below the acknowledged offset is durable
AtRest == PowerLossSafe(<<>>, {live}, acked)
DurSane == \A n \in DOMAIN dir : DurGet(dur, n) <= Len(dir[n].data)
=============================================================================
