SPECIFICATION MSpec
CONSTANTS
  MaxOff = 5
  RollAt = 2
  AutoSync = FALSE
  MaxDel = 2
  FixRecoverStale = TRUE
  FixShortHdr = TRUE
  FixTailOrder = TRUE
  FreshTmp = TRUE
  KnownRebase = TRUE
  KeepIndex = FALSE
INVARIANTS NoCrashOK MigrateOK CrashM1 CrashM2 Crash1
CHECK_DEADLOCK FALSE
