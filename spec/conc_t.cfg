SPECIFICATION Spec
CONSTANTS
  MaxOff = 6
  RollAt = 2
  NDel = 2
  NCons = 2
  NGet = 2
  MaxDel = 2
  FixStale = TRUE
VIEW view
INVARIANTS QuiescentOK HeadFlagOK
CHECK_DEADLOCK FALSE
