SPECIFICATION Spec
CONSTANTS
  MaxOff = 5
  RollAt = 2
  NDel = 2
  NCons = 2
  NGet = 1
  MaxDel = 2
  FixStale = TRUE
VIEW view
INVARIANTS QuiescentOK HeadFlagOK
CHECK_DEADLOCK FALSE
