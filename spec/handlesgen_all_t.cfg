SPECIFICATION Spec
CONSTANTS
  H = {1, 2, 3}
  MaxLen = 4
INVARIANTS EmitFull
CHECK_DEADLOCK FALSE
