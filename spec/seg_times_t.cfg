SPECIFICATION Spec
CONSTANTS
  HashOf <- mcHash
  KLenOf <- mcKLen
  KeySet <- mcKeys1
  TimeSet = {1, 2, 3}
  VLens = {4}
  MaxOff = 6
  MaxBatch = 2
  MaxSets = 2
  Rollovers = {50, 1000}
  Versions = {2}
  KeyIndex = FALSE
  TimeIndex = TRUE
  OptKeep <- FF
  OptEager <- FF
  OptCheck <- FF
  OptRecover <- TF
  AllowRO = TRUE
  AllowRmIndex = TRUE
  AllowMigrate = FALSE
VIEW view
INVARIANTS Fidelity NextOK NextDerivable Sorted FirstIsBase IndexDerived IndexLen GetByTimeInv
CHECK_DEADLOCK FALSE
