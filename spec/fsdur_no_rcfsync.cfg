SPECIFICATION DSpec
CONSTANTS
  MaxOff = 4
  RollAt = 2
  AutoSync = FALSE
  MaxDel = 2
  FixRecoverStale = TRUE
  FixShortHdr = TRUE
  FixTailOrder = TRUE
  FreshTmp = TRUE
  KnownRebase = TRUE
  RecoverFsync = FALSE
INVARIANTS NoCrashOK DurSane AtRest PowerLoss1 PowerLoss2
CHECK_DEADLOCK FALSE
