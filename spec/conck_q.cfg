SPECIFICATION SpecK
CONSTANTS
  MaxOff = 4
  RollAt = 2
  NDel = 1
  NCons = 0
  NGet = 0
  MaxDel = 2
  FixStale = TRUE
  NLook = 1
  NextFirst = TRUE
  EmptyHeadGuard = TRUE
  GuardBroad = FALSE
  NSync = 0
  SyncHoldsLock = TRUE
VIEW kview
INVARIANTS HeadFlagOK
CHECK_DEADLOCK FALSE
