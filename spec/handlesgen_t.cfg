SPECIFICATION Spec
CONSTANTS
  H = {1, 2, 3}
  MaxLen = 6
VIEW view
INVARIANTS Emit
CHECK_DEADLOCK FALSE
