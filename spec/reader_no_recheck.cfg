SPECIFICATION Spec
CONSTANTS
  Consumers = {"c1", "c2"}
  NCalls = 2
  NGC = 2
  IncLate = FALSE
  NoCountRecheck = FALSE
  NoRecheck = TRUE
INVARIANTS NoUseAfterClose InuseExact CurrentOpen NoLeak MutexSane
