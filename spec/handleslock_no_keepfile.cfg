SPECIFICATION Spec
CONSTANTS
  H = {1, 2, 3}
  MaxInode = 3
  RemoveOnFail = TRUE
INVARIANTS OneWriter WriterExclusive
CHECK_DEADLOCK FALSE
